"""Model sources for scenarios: a swarm-style MJCF generator plus curated files from /repo (read-only).

A model spec is a JSON-able dict:
  {"src": "xml", "xml": "<mujoco>...</mujoco>", "opt": {...}}       (generated; the text is stored in the scenario)
  {"src": "file", "path": "mujoco_warp/test_data/collision.xml", "opt": {...}}
"opt" entries are applied to MjModel.opt before put_model (solver, cone, jacobian, integrator, iterations,
ls_iterations, tolerance, timestep, disableflags, enableflags, impratio, ccd_iterations, sleep_tolerance).
"""

import os

import numpy as np

from . import rng as _rng

REPO = os.environ.get("VERIF_REPO", "/repo")

CURATED = [
  "mujoco_warp/test_data/collision.xml",
  "mujoco_warp/test_data/constraints.xml",
  "mujoco_warp/test_data/pendula.xml",
  "mujoco_warp/test_data/primitives.xml",
  "mujoco_warp/test_data/humanoid/humanoid.xml",
  "mujoco_warp/test_data/tendon/fixed.xml",
  "mujoco_warp/test_data/tendon/site.xml",
  "mujoco_warp/test_data/actuation/actuation.xml",
]


def _f(x):
  if isinstance(x, (list, tuple, np.ndarray)):
    return " ".join(_f(v) for v in x)
  return f"{float(x):.6g}"


class Gen:
  """Swarm-style random MJCF generator. All choices come from one numpy Generator."""

  def __init__(self, seed, features=None, size="s"):
    self.r = _rng.gen("model", seed)
    self.size = size
    r = self.r
    # feature mask: each feature is enabled with its own probability, per run (swarm testing)
    p = lambda q: bool(r.random() < q)
    self.ft = {
      "plane": p(0.8),
      "free": p(0.7),
      "ball": p(0.4),
      "slide": p(0.5),
      "limits": p(0.5),
      "frictionloss": p(0.3),
      "springs": p(0.4),
      "tendon_fixed": p(0.3),
      "tendon_spatial": p(0.3),
      "eq_connect": p(0.3),
      "eq_weld": p(0.25),
      "eq_joint": p(0.25),
      "eq_tendon": p(0.15),
      "eq_inactive": p(0.4),
      "mocap": p(0.3),
      "act": p(0.75),
      "act_dyn": p(0.5),
      "act_user": p(0.25),
      "act_delay": p(0.25),
      "sensors": p(0.6),
      "sensor_delay": p(0.25),
      "keyframes": p(0.5),
      "userdata": p(0.3),
      "condim_mix": p(0.5),
      "margin": p(0.3),
      "pairs": p(0.2),
      "exclude": p(0.2),
      "gravcomp": p(0.15),
      "sleep": False,
      "boxes": p(0.6),
      "ellipsoid": p(0.3),
      "cylinder": p(0.3),
      "mesh": False,
      "dense_contacts": p(0.5),
      "eq_many": p(0.15),  # more equalities than coordinates (size relations such as neq > nq)
      "pile": p(0.08),  # a cluster of small free bodies: many broadphase candidates, many contacts, many trees
      "tiny": p(0.15),  # one shallow tree: nq, nv small relative to nu, na, neq, nsensordata, nuserdata
      "eq_clique": p(0.06),  # five trees pairwise joined by connect equalities: a dense tree-tree graph for island discovery
      "cameras": p(0.25),  # body-mounted cameras and lights in every tracking mode (their frames are outputs of kinematics)
      "welded_child": p(0.25),  # some child bodies have no joint of their own (rigidly attached to their parent: bodies != joints != dofs)
    }
    if features:
      self.ft.update(features)
    self.bodies = []  # (name, tree, has_hinge_or_slide_joint_names)
    self.joints = []  # (name, type, body)
    self.sites = []
    self.geoms = []
    self.tendons = []
    self.ntree = 0

  # -- helpers
  def u(self, a, b):
    return float(self.r.uniform(a, b))

  def ch(self, seq):
    return seq[int(self.r.integers(0, len(seq)))]

  def _geom(self, body, k, ind):
    r, ft = self.r, self.ft
    kinds = ["sphere", "capsule"]
    if ft["boxes"]:
      kinds += ["box", "box"]
    if ft["ellipsoid"]:
      kinds.append("ellipsoid")
    if ft["cylinder"]:
      kinds.append("cylinder")
    t = self.ch(kinds)
    s = self.u(0.05, 0.12)
    if t == "sphere":
      size = [s]
    elif t in ("capsule", "cylinder"):
      size = [s * 0.7, self.u(0.05, 0.15)]
    else:
      size = [s, self.u(0.05, 0.12), self.u(0.04, 0.1)]
    name = f"g{body}_{k}"
    a = f'name="{name}" type="{t}" size="{_f(size)}" pos="{_f([self.u(-0.05, 0.05), self.u(-0.05, 0.05), self.u(-0.05, 0.05)])}"'
    if t != "sphere" and r.random() < 0.5:
      a += f' euler="{_f([self.u(-60, 60), self.u(-60, 60), 0])}"'
    if ft["condim_mix"]:
      a += f' condim="{self.ch([1, 3, 3, 4, 6])}"'
    if r.random() < 0.3:
      a += f' friction="{_f([self.u(0.2, 1.5), self.u(0.001, 0.02), self.u(0.0001, 0.002)])}"'
    if ft["margin"] and r.random() < 0.5:
      mg = self.u(0.0, 0.03)
      a += f' margin="{_f(mg)}" gap="{_f(mg * self.ch([0, 0, 0.5]))}"'
    if r.random() < 0.15:
      a += f' priority="{self.ch([1, 2])}"'
    if r.random() < 0.15:
      a += f' solmix="{_f(self.u(0.1, 3))}"'
    if r.random() < 0.15:
      a += f' solref="{_f([self.u(0.01, 0.05), self.u(0.5, 1.5)])}"'
    if r.random() < 0.1:
      a += ' contype="2" conaffinity="3"'
    a += f' density="{_f(self.u(300, 1500))}"'
    self.geoms.append(name)
    return f"{ind}<geom {a}/>\n"

  def _joint(self, body, k, t, ind, axis=None):
    r, ft = self.r, self.ft
    name = f"j{body}_{k}"
    a = f'name="{name}" type="{t}"'
    if t in ("hinge", "slide"):
      ax = axis or self.ch([[1, 0, 0], [0, 1, 0], [0, 0, 1], [0.6, 0.8, 0]])
      a += f' axis="{_f(ax)}"'
      if ft["limits"] and r.random() < 0.6:
        lo, hi = (-self.u(0.2, 1.2), self.u(0.2, 1.2)) if t == "hinge" else (-self.u(0.05, 0.3), self.u(0.05, 0.3))
        a += f' limited="true" range="{_f([lo, hi])}"'
        if ft["margin"] and r.random() < 0.3:
          a += f' margin="{_f(self.u(0, 0.05))}"'
      if ft["springs"] and r.random() < 0.5:
        a += f' stiffness="{_f(self.u(1, 30))}" springref="{_f(self.u(-0.2, 0.2))}"'
    if t == "ball" and ft["limits"] and r.random() < 0.4:
      a += f' limited="true" range="0 {_f(self.u(0.3, 1.2))}"'
    if t != "free":
      if r.random() < 0.6:
        a += f' damping="{_f(self.u(0.01, 1.0))}"'
      if r.random() < 0.4:
        a += f' armature="{_f(self.u(0.001, 0.05))}"'
      if ft["frictionloss"] and r.random() < 0.5:
        a += f' frictionloss="{_f(self.u(0.01, 0.5))}"'
    self.joints.append((name, t, body))
    return f"{ind}<joint {a}/>\n"

  def _body(self, tree, depth, pos, root_joint, ind):
    r = self.r
    b = len(self.bodies)
    name = f"b{b}"
    self.bodies.append((name, tree))
    extra = ""
    if self.ft["gravcomp"] and r.random() < 0.5:
      extra = f' gravcomp="{_f(self.u(0.2, 1.0))}"'
    s = f'{ind}<body name="{name}" pos="{_f(pos)}"{extra}>\n'
    if root_joint == "free":
      s += f'{ind}  <freejoint name="j{b}_0"/>\n'
      self.joints.append((f"j{b}_0", "free", b))
    elif root_joint is not None:
      s += self._joint(b, 0, root_joint, ind + "  ")
      if root_joint != "ball" and r.random() < 0.25:
        s += self._joint(b, 1, self.ch(["hinge", "slide"] if self.ft["slide"] else ["hinge"]), ind + "  ")
    ng = 1 + int(r.random() < 0.3)
    for k in range(ng):
      s += self._geom(b, k, ind + "  ")
    sname = f"s{b}"
    s += f'{ind}  <site name="{sname}" pos="{_f([self.u(-0.05, 0.05), self.u(-0.05, 0.05), self.u(0.0, 0.1)])}" size="0.01"/>\n'
    self.sites.append((sname, b))
    if self.ft.get("cameras") and r.random() < 0.4:
      mode = self.ch(["fixed", "track", "trackcom", "targetbody", "targetbodycom"])
      tgt = f' target="b{0 if b else 1}"' if mode.startswith("target") and (b or self.ft.get("_multi")) else ""
      if mode.startswith("target") and not tgt:
        mode = "track"
      s += f'{ind}  <camera name="c{b}" mode="{mode}"{tgt} pos="{_f([self.u(-0.3, 0.3), self.u(-0.3, 0.3), self.u(0.1, 0.5)])}" euler="{_f([self.u(-40, 40), self.u(-40, 40), self.u(-90, 90)])}"/>\n'
      if r.random() < 0.5:
        s += f'{ind}  <light name="l{b}" mode="{mode}"{tgt} pos="0 0 0.5" dir="0 0 -1"/>\n'
    maxdepth = 1 if self.ft["tiny"] else {"s": 2, "m": 3, "l": 4}[self.size]
    if depth < maxdepth:
      nchild = int(r.choice([0, 1, 1, 2])) if depth > 0 else int(r.choice([0, 1, 1, 2]))
      for c in range(nchild):
        jt = ["hinge", "hinge"]
        if self.ft["slide"]:
          jt.append("slide")
        if self.ft["ball"]:
          jt.append("ball")
        cpos = [self.u(-0.1, 0.1) + 0.22 * (c - 0.5), self.u(-0.1, 0.1), self.u(-0.25, -0.12)]
        cj = self.ch(jt)
        if self.ft["welded_child"] and r.random() < 0.4:
          cj = None
        s += self._body(tree, depth + 1, cpos, cj, ind + "  ")
    s += f"{ind}</body>\n"
    return s

  def build(self):
    r, ft = self.r, self.ft
    ntree = 1 if ft["tiny"] else int(r.integers(1, {"s": 3, "m": 4, "l": 6}[self.size] + 1))
    wb = ""
    if ft["plane"]:
      wb += '    <geom name="floor" type="plane" size="0 0 1" pos="0 0 0"'
      if ft["condim_mix"] and r.random() < 0.5:
        wb += f' condim="{self.ch([1, 3, 4, 6])}"'
      wb += "/>\n"
      self.geoms.append("floor")
    mocap = None
    if ft["mocap"]:
      mocap = "mc0"
      wb += f'    <body name="mc0" mocap="true" pos="{_f([self.u(-0.3, 0.3), self.u(-0.3, 0.3), self.u(0.05, 0.4)])}">\n'
      wb += f'      <geom name="gmc0" type="{self.ch(["sphere", "box"])}" size="0.06 0.06 0.06"/>\n      <site name="smc0" size="0.01"/>\n    </body>\n'
      self.geoms.append("gmc0")
    for t in range(ntree):
      roots = ["hinge"]
      if ft["free"] and not ft["tiny"]:
        roots += ["free", "free"]
      if ft["ball"]:
        roots.append("ball")
      if ft["slide"]:
        roots.append("slide")
      rj = self.ch(roots)
      x = 0.35 * (t - (ntree - 1) / 2) + self.u(-0.05, 0.05)
      if ft["dense_contacts"]:
        z = self.u(0.06, 0.35) if rj == "free" else self.u(0.25, 0.6)
      else:
        z = self.u(0.3, 0.9)
      wb += self._body(t, 0, [x, self.u(-0.15, 0.15), z], rj, "    ")
    if ft["pile"] and not ft["tiny"]:
      n = int(r.integers(6, 17))
      cols = int(r.integers(1, 4))
      for k in range(n):
        b = len(self.bodies)
        self.bodies.append((f"b{b}", ntree + k))
        px, py, pz = 0.9 + 0.13 * (k % cols) + self.u(-0.01, 0.01), self.u(-0.02, 0.02), 0.07 + 0.125 * (k // cols)
        gt = self.ch(["sphere", "sphere", "box"])
        gs = "0.06" if gt == "sphere" else "0.055 0.055 0.055"
        wb += f'    <body name="b{b}" pos="{_f([px, py, pz])}">\n      <freejoint name="j{b}_0"/>\n      <geom name="g{b}_0" type="{gt}" size="{gs}"/>\n      <site name="s{b}" size="0.01"/>\n    </body>\n'
        self.joints.append((f"j{b}_0", "free", b))
        self.geoms.append(f"g{b}_0")
        self.sites.append((f"s{b}", b))
      ntree += n
    if ft.get("curtain") and not ft["tiny"]:
      # a row of small spheres on vertical slides, lined up across the fixed sweep direction of the SAP broadphase (0.59, 0.78, 0.12): they
      # never touch each other but every pair of them is a sweep candidate (more candidates than broadphase threads); one DOF and one tree each
      n = int(r.integers(16, 25))
      for k in range(n):
        b = len(self.bodies)
        self.bodies.append((f"b{b}", ntree + k))
        px, py = -1.2 + 0.78 * 0.14 * k, 1.0 - 0.59 * 0.14 * k
        wb += f'    <body name="b{b}" pos="{_f([px, py, self.u(0.05, 0.12)])}">\n      <joint name="j{b}_0" type="slide" axis="0 0 1"/>\n      <geom name="g{b}_0" type="sphere" size="0.05"/>\n      <site name="s{b}" size="0.01"/>\n    </body>\n'
        self.joints.append((f"j{b}_0", "slide", b))
        self.geoms.append(f"g{b}_0")
        self.sites.append((f"s{b}", b))
      ntree += n
    self.ntree = ntree
    hs = [j for j in self.joints if j[1] in ("hinge", "slide")]

    # tendons
    ten = ""
    if ft["tendon_fixed"] and len(hs) >= 2:
      for k in range(int(r.integers(1, 3))):
        js = [hs[i] for i in r.choice(len(hs), size=min(len(hs), int(r.integers(2, 4))), replace=False)]
        name = f"tf{k}"
        a = f'name="{name}"'
        if r.random() < 0.5:
          a += f' limited="true" range="{_f([-self.u(0.1, 0.5), self.u(0.1, 0.5)])}"'
        if ft["frictionloss"] and r.random() < 0.4:
          a += f' frictionloss="{_f(self.u(0.01, 0.3))}"'
        if r.random() < 0.4:
          a += f' damping="{_f(self.u(0.01, 0.5))}" stiffness="{_f(self.u(0, 5))}"'
        if r.random() < 0.3:
          a += f' armature="{_f(self.u(0.005, 0.1))}"'
        ten += f"    <fixed {a}>\n" + "".join(f'      <joint joint="{j[0]}" coef="{_f(self.u(-1.5, 1.5))}"/>\n' for j in js) + "    </fixed>\n"
        self.tendons.append(name)
    if ft["tendon_spatial"] and len(self.sites) >= 2:
      for k in range(int(r.integers(1, 3))):
        idx = r.choice(len(self.sites), size=min(len(self.sites), int(r.integers(2, 4))), replace=False)
        name = f"ts{k}"
        a = f'name="{name}"'
        if r.random() < 0.5:
          a += f' limited="true" range="0 {_f(self.u(0.2, 0.8))}"'
        if r.random() < 0.4:
          a += f' damping="{_f(self.u(0.01, 0.5))}" stiffness="{_f(self.u(0, 5))}"'
        if r.random() < 0.3:
          a += f' armature="{_f(self.u(0.005, 0.1))}"'
        ten += f"    <spatial {a}>\n" + "".join(f'      <site site="{self.sites[i][0]}"/>\n' for i in idx) + "    </spatial>\n"
        self.tendons.append(name)

    # equalities
    eq = ""
    neq = 0

    def active():
      return ' active="false"' if (ft["eq_inactive"] and r.random() < 0.5) else ""

    nb = len(self.bodies)
    if ft["eq_connect"] and nb >= 2:
      i, j = [int(v) for v in r.choice(nb, size=2, replace=False)]
      tgt = f'body2="{self.bodies[j][0]}"' if r.random() < 0.7 else ""
      eq += f'    <connect name="eqc" body1="{self.bodies[i][0]}" {tgt} anchor="{_f([self.u(-0.1, 0.1), self.u(-0.1, 0.1), self.u(-0.1, 0.1)])}"{active()}/>\n'
      neq += 1
    if ft["eq_weld"] and nb >= 1:
      i = int(r.integers(0, nb))
      if mocap and r.random() < 0.5:
        tgt = 'body2="mc0"'
      elif nb >= 2:
        j = int((i + 1 + r.integers(0, nb - 1)) % nb)
        tgt = f'body2="{self.bodies[j][0]}"'
      else:
        tgt = ""
      eq += f'    <weld name="eqw" body1="{self.bodies[i][0]}" {tgt} torquescale="{_f(self.u(0.5, 2))}"{active()}/>\n'
      neq += 1
    if ft["eq_joint"] and len(hs) >= 2:
      i, j = [int(v) for v in r.choice(len(hs), size=2, replace=False)]
      eq += f'    <joint name="eqj" joint1="{hs[i][0]}" joint2="{hs[j][0]}" polycoef="0 {_f(self.u(-1.5, 1.5))} 0 0 0"{active()}/>\n'
      neq += 1
    if ft["eq_tendon"] and len(self.tendons) >= 1:
      t2 = f'tendon2="{self.tendons[1]}"' if len(self.tendons) >= 2 and r.random() < 0.5 else ""
      eq += f'    <tendon name="eqt" tendon1="{self.tendons[0]}" {t2} polycoef="{_f(self.u(-0.1, 0.1))} 1 0 0 0"{active()}/>\n'
      neq += 1

    if ft["eq_many"]:
      for k in range(int(r.integers(2, 6))):
        if hs and r.random() < 0.5:
          eq += f'    <joint name="eqm{k}" joint1="{self.ch(hs)[0]}" polycoef="{_f(self.u(-0.2, 0.2))} 0 0 0 0"{active()}/>\n'
        else:
          eq += f'    <connect name="eqm{k}" body1="{self.ch(self.bodies)[0]}" anchor="{_f([self.u(-0.1, 0.1), self.u(-0.1, 0.1), self.u(-0.1, 0.1)])}"{active()}/>\n'
        neq += 1

    if ft.get("eq_clique"):
      roots = {}
      for name, tree in self.bodies:
        roots.setdefault(tree, name)
      rs = list(roots.values())[:5]
      if len(rs) >= 4:
        for i in range(len(rs)):
          for j in range(i + 1, len(rs)):
            eq += f'    <connect name="eqk{i}_{j}" body1="{rs[i]}" body2="{rs[j]}" anchor="0 0 0" solref="0.05 1"/>\n'
            neq += 1

    # contact pairs / excludes
    con = ""
    if ft["pairs"] and len(self.geoms) >= 2:
      i, j = [int(v) for v in r.choice(len(self.geoms), size=2, replace=False)]
      con += f'    <pair geom1="{self.geoms[i]}" geom2="{self.geoms[j]}" condim="{self.ch([1, 3, 4, 6])}" friction="{_f([0.8, 0.8, 0.01, 0.001, 0.001])}"/>\n'
    if ft["exclude"] and nb >= 2:
      i, j = [int(v) for v in r.choice(nb, size=2, replace=False)]
      con += f'    <exclude body1="{self.bodies[i][0]}" body2="{self.bodies[j][0]}"/>\n'

    # actuators
    act = ""
    nu = 0
    na = 0
    if ft["act"] and (hs or self.tendons):
      for k in range(int(r.integers(1, 5))):
        use_tendon = self.tendons and r.random() < 0.2
        use_site = (not use_tendon) and r.random() < 0.1
        if use_tendon:
          trn = f'tendon="{self.ch(self.tendons)}"'
        elif use_site:
          trn = f'site="{self.ch(self.sites)[0]}" gear="{_f([self.u(-1, 1), self.u(-1, 1), self.u(-1, 1), 0, 0, 0])}"'
        elif hs:
          trn = f'joint="{self.ch(hs)[0]}" gear="{_f(self.u(0.5, 3))}"'
        else:
          continue
        kind = self.ch(["motor", "motor", "position", "velocity", "general"])
        extra = ""
        if r.random() < 0.5:
          extra += f' ctrllimited="true" ctrlrange="{_f([-self.u(0.3, 1), self.u(0.3, 1)])}"'
        if r.random() < 0.3:
          extra += f' forcelimited="true" forcerange="{_f([-self.u(0.5, 5), self.u(0.5, 5)])}"'
        if ft["act_delay"] and r.random() < 0.6:
          extra += f' delay="{_f(self.ch([0.0, 0.004, 0.008, 0.016]))}" nsample="{self.ch([2, 3, 5])}" interp="{self.ch(["zoh", "linear", "cubic"])}"'
        if kind == "motor":
          act += f"    <motor {trn}{extra}/>\n"
        elif kind == "position":
          act += f'    <position {trn} kp="{_f(self.u(1, 30))}" kv="{_f(self.u(0, 2))}"{extra}/>\n'
        elif kind == "velocity":
          act += f'    <velocity {trn} kv="{_f(self.u(0.1, 3))}"{extra}/>\n'
        else:
          if ft["act_user"] and r.random() < 0.5:
            ad = int(r.integers(1, 4))
            act += f'    <general {trn} dyntype="user" actdim="{ad}" gainprm="{_f(self.u(0.5, 2))}"{extra}/>\n'
            na += ad
          elif ft["act_dyn"]:
            dyn = self.ch(["integrator", "filter", "filterexact"])
            tight = bool(ft.get("act_limits"))  # activation limits that are actually reached (narrow range), early activation
            ae = ' actearly="true"' if r.random() < (0.7 if tight else 0.3) else ""
            al = f' actlimited="true" actrange="{_f([-self.u(0.1, 0.4), self.u(0.1, 0.4)] if tight else [-self.u(0.5, 2), self.u(0.5, 2)])}"' if r.random() < (0.9 if tight else 0.4) else ""
            act += f'    <general {trn} dyntype="{dyn}" dynprm="{_f(self.u(0.01, 0.2))}" gainprm="{_f(self.u(0.5, 3))}" biastype="affine" biasprm="0 {_f(-self.u(0, 3))} {_f(-self.u(0, 0.5))}"{ae}{al}{extra}/>\n'
            na += 1
          else:
            act += f'    <general {trn} gainprm="{_f(self.u(0.5, 3))}"{extra}/>\n'
        nu += 1
    self.nu, self.na = nu, na

    # sensors
    sen = ""
    if ft["sensors"]:
      def sdelay():
        if ft["sensor_delay"] and r.random() < 0.6:
          s = f' nsample="{self.ch([2, 3, 5])}"'
          if r.random() < 0.7:
            s += f' delay="{_f(self.ch([0.004, 0.008, 0.016]))}" interp="{self.ch(["zoh", "linear", "cubic"])}"'
          if r.random() < 0.3:
            s += f' interval="{_f(self.ch([0.004, 0.008, 0.012]))}"'
          return s
        return ""

      for k in range(int(r.integers(1, 7))):
        kind = self.ch(["jointpos", "jointvel", "framepos", "framequat", "accelerometer", "velocimeter", "gyro", "touch", "subtreecom", "actuatorfrc", "framelinvel", "force", "torque", "tendonpos", "clock", "subtreelinvel"])
        cut = f' cutoff="{_f(self.u(0.5, 5))}"' if r.random() < 0.2 else ""
        if kind in ("jointpos", "jointvel") and hs:
          sen += f'    <{kind} joint="{self.ch(hs)[0]}"{cut}{sdelay()}/>\n'
        elif kind in ("framepos", "framequat", "framelinvel"):
          sen += f'    <{kind} objtype="body" objname="{self.ch(self.bodies)[0]}"{sdelay()}/>\n'
        elif kind in ("accelerometer", "velocimeter", "gyro", "touch", "force", "torque"):
          sen += f'    <{kind} site="{self.ch(self.sites)[0]}"{cut}{sdelay()}/>\n'
        elif kind in ("subtreecom", "subtreelinvel"):
          sen += f'    <{kind} body="{self.ch(self.bodies)[0]}"/>\n'
        elif kind == "actuatorfrc" and nu:
          pass  # needs actuator names; skipped
        elif kind == "tendonpos" and self.tendons:
          sen += f'    <tendonpos tendon="{self.ch(self.tendons)}"{sdelay()}/>\n'
        elif kind == "clock":
          sen += "    <clock/>\n"

    xml = "<mujoco>\n"
    xml += '  <compiler angle="radian" autolimits="false"/>\n'
    if ft["userdata"]:
      xml += f'  <size nuserdata="{int(r.integers(1, 5))}"/>\n'
    xml += f"  <worldbody>\n{wb}  </worldbody>\n"
    if ten:
      xml += f"  <tendon>\n{ten}  </tendon>\n"
    if eq:
      xml += f"  <equality>\n{eq}  </equality>\n"
    if con:
      xml += f"  <contact>\n{con}  </contact>\n"
    if act:
      xml += f"  <actuator>\n{act}  </actuator>\n"
    if sen:
      xml += f"  <sensor>\n{sen}  </sensor>\n"
    xml += "</mujoco>\n"
    return xml


DSBL = {"CONSTRAINT": 1, "EQUALITY": 2, "FRICTIONLOSS": 4, "LIMIT": 8, "CONTACT": 16, "SPRING": 32, "DAMPER": 64, "GRAVITY": 128,
        "CLAMPCTRL": 256, "WARMSTART": 512, "FILTERPARENT": 1024, "ACTUATION": 2048, "REFSAFE": 4096, "SENSOR": 8192,
        "EULERDAMP": 32768, "NATIVECCD": 131072, "ISLAND": 262144, "MULTICCD": 524288}
ENBL = {"ENERGY": 2, "INVDISCRETE": 8, "SLEEP": 16}
SOLVERS = {"newton": 2, "cg": 1}
CONES = {"pyramidal": 0, "elliptic": 1}
JACOBIANS = {"dense": 0, "sparse": 1, "auto": 2}
INTEGRATORS = {"euler": 0, "rk4": 1, "implicit": 2, "implicitfast": 3}


def random_opt(seed, integrators=("euler", "euler", "implicitfast", "implicit", "rk4"), allow_flags=True):
  r = _rng.gen("opt", seed)
  ch = lambda seq: seq[int(r.integers(0, len(seq)))]
  opt = {
    "solver": ch(["newton", "newton", "cg"]),
    "cone": ch(["pyramidal", "elliptic"]),
    "jacobian": ch(["dense", "sparse"]),
    "integrator": ch(list(integrators)),
    "timestep": ch([0.002, 0.004, 0.001, 0.005]),
    "iterations": ch([100, 100, 50]),
    "ls_iterations": ch([50, 50, 20]),
    "tolerance": 1e-8,
  }
  if r.random() < 0.3:
    opt["impratio"] = float(ch([1.0, 2.0, 5.0]))
  if allow_flags:
    dis = 0
    # mjDSBL bits that are safe to toggle randomly
    for bit, q in ((DSBL["SPRING"], 0.05), (DSBL["DAMPER"], 0.05), (DSBL["WARMSTART"], 0.15), (DSBL["FILTERPARENT"], 0.05),
                   (DSBL["REFSAFE"], 0.05), (DSBL["EULERDAMP"], 0.2), (DSBL["FRICTIONLOSS"], 0.05), (DSBL["LIMIT"], 0.05),
                   (DSBL["CLAMPCTRL"], 0.05), (DSBL["MULTICCD"], 0.1), (DSBL["ISLAND"], 0.3)):
      if r.random() < q:
        dis |= bit
    opt["disableflags"] = dis
    opt["enableflags"] = int(ch([0, 0, ENBL["ENERGY"]]))
  return opt


def random_mopt(seed):
  """Warp-side options (exist only on mujoco_warp's Option): broadphase algorithm and filter, solver loop form."""
  r = _rng.gen("mopt", seed)
  out = {}
  if r.random() < 0.5:
    out["broadphase"] = int(r.integers(0, 3))
  if r.random() < 0.3:
    out["broadphase_filter"] = int(r.integers(0, 16))
  if r.random() < 0.4:
    out["graph_conditional"] = bool(r.random() < 0.5)
  return out


def _keyframes(r, mjm, n):
  import mujoco

  out = ""
  for k in range(n):
    qpos = mjm.qpos0 + 0.15 * r.standard_normal(mjm.nq)
    mujoco.mj_normalizeQuat(mjm, qpos)
    a = f'name="k{k}" time="{_f(round(float(r.uniform(0, 2)), 3))}" qpos="{_f(qpos)}" qvel="{_f(0.3 * r.standard_normal(mjm.nv))}"'
    if mjm.na:
      a += f' act="{_f(0.3 * r.standard_normal(mjm.na))}"'
    if mjm.nu:
      a += f' ctrl="{_f(r.uniform(-0.5, 0.5, mjm.nu))}"'
    if mjm.nmocap:
      q = r.standard_normal(4 * mjm.nmocap).reshape(-1, 4)
      q /= np.linalg.norm(q, axis=1, keepdims=True)
      a += f' mpos="{_f(r.uniform(-0.3, 0.3, 3 * mjm.nmocap))}" mquat="{_f(q.ravel())}"'
    out += f"    <key {a}/>\n"
  return out


def generate(seed, features=None, size="s", opt=None, tries=30, accept=None):
  """Return a model spec whose XML compiles in MuJoCo (and passes `accept(mjm)` if given).

  put_model may still reject it (unsupported feature combination): callers treat that as an accepted outcome and
  ask for the next candidate with a different seed."""
  import mujoco

  for t in range(tries):
    g = Gen(_rng.mix(seed, t), features, size)
    xml = g.build()
    try:
      mjm = mujoco.MjModel.from_xml_string(xml)
    except Exception:
      continue
    if mjm.nv == 0:
      continue
    if mjm.ntendon:
      # a tendon whose length no joint can change (both sites on bodies that are rigid relative to each other) has a Jacobian that is
      # pure round-off; a limit or equality row on it gets D = 1e15 and the row force is round-off times 1e15 in either engine: degenerate
      _d = mujoco.MjData(mjm)
      try:
        mujoco.mj_forward(mjm, _d)
      except Exception:  # mujoco.FatalError (e.g. rank-deficient Hessian at the default pose): not a usable model
        continue
      _J = np.asarray(_d.ten_J).reshape(mjm.ntendon, -1) if np.asarray(_d.ten_J).size == mjm.ntendon * mjm.nv else None
      if _J is not None and np.any(np.abs(_J).max(axis=1) < 1e-9):
        continue
    if g.ft["keyframes"]:
      kf = _keyframes(_rng.gen("key", seed, t), mjm, int(g.r.integers(1, 4)))
      xml2 = xml.replace("</mujoco>", f"  <keyframe>\n{kf}  </keyframe>\n</mujoco>")
      try:
        mjm = mujoco.MjModel.from_xml_string(xml2)
        xml = xml2
      except Exception:
        pass
    if accept is not None and not accept(mjm):
      continue
    spec = {"src": "xml", "xml": xml, "opt": dict(opt) if opt is not None else random_opt(_rng.mix(seed, "o"))}
    spec["features"] = sorted(k for k, v in g.ft.items() if v)
    return spec
  raise RuntimeError("model generator could not produce a compilable model")


def load_mjm(spec):
  import mujoco

  if spec["src"] == "xml":
    mjm = mujoco.MjModel.from_xml_string(spec["xml"])
  else:
    mjm = mujoco.MjModel.from_xml_path(os.path.join(REPO, spec["path"]))
  o = spec.get("opt") or {}
  for k, v in o.items():
    if k == "solver":
      mjm.opt.solver = SOLVERS[v] if isinstance(v, str) else v
    elif k == "cone":
      mjm.opt.cone = CONES[v] if isinstance(v, str) else v
    elif k == "jacobian":
      mjm.opt.jacobian = JACOBIANS[v] if isinstance(v, str) else v
    elif k == "integrator":
      mjm.opt.integrator = INTEGRATORS[v] if isinstance(v, str) else v
    elif k == "sleep":
      if v:
        mjm.opt.enableflags |= ENBL["SLEEP"]
        mjm.opt.disableflags &= ~DSBL["ISLAND"]
        mjm.opt.solver = SOLVERS["newton"]  # put_model: sleeping requires the Newton solver
    else:
      setattr(mjm.opt, k, v)
  if o.get("sleep") and int(mjm.opt.iterations) > 40:
    # with sleeping enabled solve() takes the compacted path, which on the CPU backend runs every one of opt.iterations iterations
    # (no early exit): 100 iterations cost ~1500 launches per step. Newton needs far fewer; unconverged steps are guarded by the bit.
    mjm.opt.iterations = 40
  return mjm
