"""Worker: executes a list of jobs for one property in one fresh interpreter.

usage: python -m sim.worker <job.json> <out.jsonl>
job: {"property": "C12", "build": "rel|dbg", "tier": "quick", "jobs": [{"seed":..,"idx":..} | {"scenario": {...}}],
      "stop_on_violation": false}
Each result line: {"idx":..., "status": "ok|violation|error|rejected", "violations":[...], "stats":{...}, "digest":..., "scenario": ... (only on violation/error)}
A write-ahead line {"start": idx} is emitted before each job so that a process death can be attributed.
"""

import faulthandler
import importlib
import json
import os
import sys
import time
import traceback


def _ck(c):
  return json.dumps(c, sort_keys=True)


def minimise(mod, sc, ck, deadline):
  """Greedy delta-debugging: accept any smaller scenario that still shows the same violation class."""
  from sim import seams

  cur = sc
  improved = True
  steps = 0
  while improved and time.time() < deadline:
    improved = False
    for cand in mod.shrink(cur):
      if time.time() > deadline:
        break
      try:
        seams.set_policy(None)
        seams.set_alloc("NATIVE")
        seams.reset_counters()  # allocation and launch counters key the GARBAGE / PERM streams: every run starts them from zero
        r = mod.run(cand)
      except Exception:
        continue
      steps += 1
      if any(_ck(v["class"]) == ck for v in r.get("violations") or []):
        cur = cand
        improved = True
        break
  cur = dict(cur)
  cur["minimise_steps"] = steps
  return cur


def main():
  job = json.load(open(sys.argv[1]))
  out = open(sys.argv[2], "a", buffering=1)
  faulthandler.enable()
  tmo = int(job.get("timeout_s", 600))
  faulthandler.dump_traceback_later(tmo, exit=True)
  here = os.path.dirname(os.path.dirname(os.path.abspath(__file__)))
  sys.path.insert(0, here)
  from sim import seams

  cache = os.environ.get("VERIF_CACHE", os.path.join(here, ".cache"))
  build = job.get("build", "rel")
  seams.install(os.path.join(cache, "wp-" + build + "-" + os.environ.get("VERIF_SRC_HASH", "nohash")), debug=(build == "dbg"))
  import warnings

  warnings.filterwarnings("ignore")
  import mujoco  # noqa: F401
  import mujoco_warp as _mjw

  print("mujoco_warp imported from", os.path.dirname(_mjw.__file__), flush=True)

  mod = importlib.import_module("sim.props." + job["property"].lower())
  for j in job["jobs"]:
    t0 = time.time()
    idx = j.get("idx", -1)
    out.write(json.dumps({"start": idx}) + "\n")
    res = {"idx": idx}
    sc = None
    try:
      sc = j.get("scenario")
      if sc is None:
        sc = mod.gen(j["seed"], idx, job.get("tier", "quick"))
      if job.get("list_shrinks"):
        cands = []
        for cand in mod.shrink(sc):
          cands.append(cand)
          if len(cands) >= 40:
            break
        from sim.core import jdump as _jd

        out.write(_jd({"idx": idx, "status": "shrinks", "candidates": cands}) + "\n")
        continue
      if job.get("gen_only"):
        res.update({"status": "generated", "scenario": sc})
        from sim.core import jdump as _jd

        out.write(_jd(res) + "\n")
        continue
      if job.get("write_ahead_scenario"):
        from sim.core import jdump as _jd

        out.write(_jd({"start": idx, "scenario": sc}) + "\n")
      seams.set_policy(None)
      seams.set_alloc("NATIVE")
      seams.reset_counters()  # a run must not depend on how many allocations / launches earlier runs of the same interpreter made
      r = mod.run(sc)
      res.update(r)
      res["status"] = "violation" if r.get("violations") else r.get("status", "ok")
      if res["status"] in ("violation",) or job.get("keep_scenario"):
        res["scenario"] = sc
      if job.get("minimise") and hasattr(mod, "shrink"):
        res["minimised"] = minimise(mod, sc, job["minimise"], t0 + 0.8 * tmo)
    except Exception as e:  # harness or library exception: reported, never silently dropped
      from sim.core import ModelRejected

      # a model that put_model refuses is outside the input space of the properties: counted as rejected (evidence: run_status),
      # never as a pass of an evaluation; anything else is a harness error
      res["status"] = "rejected" if isinstance(e, ModelRejected) else "error"
      res["error"] = f"{type(e).__name__}: {e}"
      res["trace"] = traceback.format_exc()[-3000:]
      res["scenario"] = sc
    res["wall_s"] = round(time.time() - t0, 3)
    from sim.core import jdump

    out.write(jdump(res) + "\n")
    faulthandler.cancel_dump_traceback_later()
    faulthandler.dump_traceback_later(tmo, exit=True)
  out.write(json.dumps({"done": True}) + "\n")
  out.close()


if __name__ == "__main__":
  main()
