"""Simulator seams for mujoco_warp on Warp's CPU backend.

S1  thread scheduler : every CPU kernel launch visits its task ids in an order chosen per launch
S2  allocator        : wp.empty / wp.empty_like return memory filled with a run-chosen pattern
launch log           : (index, kernel key, dim, mode, key) for every launch

Nothing in /repo or /venv is edited: the seams are monkey patches of module attributes of `warp`
inside this interpreter, installed before the first mujoco_warp kernel is built.
"""

import ctypes
import os
import sys

import numpy as np

WARP_VERSION = "1.17.0"

ASC, DESC, PERM, STRIDE, BLOCK, SWAP = 0, 1, 2, 3, 4, 5
MODE_NAMES = {ASC: "ASC", DESC: "DESC", PERM: "PERM", STRIDE: "STRIDE", BLOCK: "BLOCK", SWAP: "SWAP"}
MODE_IDS = {v: k for k, v in MODE_NAMES.items()}

_HEADER_EXTRA = """
// ---- /verif deterministic-simulation scheduler seam ----
static inline unsigned long long vsim_mix(unsigned long long x)
{{
    x ^= x >> 33; x *= 0xff51afd7ed558ccdULL; x ^= x >> 33; x *= 0xc4ceb9fe1a85ec53ULL; x ^= x >> 33; return x;
}}
static inline size_t vsim_perm(size_t i, size_t n, unsigned long long key)
{{
    if (n < 2) return i;
    unsigned b = 2; while ((((size_t)1) << b) < n) b += 2;
    unsigned h = b / 2; size_t mask = (((size_t)1) << h) - 1;
    size_t x = i;
    do {{
        size_t l = x >> h, r = x & mask;
        for (int rnd = 0; rnd < 4; ++rnd) {{
            size_t t = l ^ (size_t)(vsim_mix((unsigned long long)r * 0x9E3779B97F4A7C15ULL + key + (unsigned long long)rnd * 0x632BE59BD9B4E019ULL) & mask);
            l = r; r = t;
        }}
        x = (l << h) | r;
    }} while (x >= n);
    return x;
}}
static inline size_t vsim_task(size_t j, size_t n, size_t s0, unsigned long long mode, unsigned long long key)
{{
    switch (mode) {{
    case 1: return n - 1 - j;
    case 2: return vsim_perm(j, n, key);
    case 3: {{ if (s0 < 2 || n % s0) return j; size_t inner = n / s0; return (j % s0) * inner + (j / s0); }}
    case 4: {{ size_t nb = (n + 31) / 32; size_t full = n / 32; // shuffle only the full blocks, tail block stays last
               size_t blk = j / 32, off = j % 32; if (blk >= full || full < 2) return j; (void)nb;
               return vsim_perm(blk, full, key) * 32 + off; }}
    case 5: {{ size_t a = (size_t)(key >> 32), b2 = (size_t)(key & 0xffffffffULL);
               if (a >= n || b2 >= n) return j; if (j == a) return b2; if (j == b2) return a; return j; }}
    default: return j;
    }}
}}
"""

_TEMPLATE_FORWARD = """

extern "C" {{

// Python CPU entry points (schedule chosen per launch by /verif/sim/seams.py)
WP_API void {name}_cpu_forward(
    wp::launch_bounds_t<{launch_ndim}> *dim,
    wp_args_{name} *_wp_args)
{{
    wp::tile_shared_storage_t tile_mem;
#if defined(WP_ENABLE_TILES_IN_STACK_MEMORY)
    wp::shared_tile_storage = &tile_mem;
#endif

    const unsigned long long *vsim_x = (const unsigned long long *)(dim + 1);
    const unsigned long long vsim_mode = vsim_x[0];
    const unsigned long long vsim_key = vsim_x[1];
    const size_t vsim_n = dim->size;
    const size_t vsim_s0 = (size_t)dim->shape[0];
    if (vsim_mode == 0)
    {{
        for (size_t task_index = 0; task_index < vsim_n; ++task_index)
        {{
            {name}_cpu_kernel_forward(*dim, task_index, _wp_args);
        }}
    }}
    else
    {{
        for (size_t vsim_j = 0; vsim_j < vsim_n; ++vsim_j)
        {{
            size_t task_index = vsim_task(vsim_j, vsim_n, vsim_s0, vsim_mode, vsim_key);
            {name}_cpu_kernel_forward(*dim, task_index, _wp_args);
        }}
    }}
}}

}} // extern C

"""


class _State:
  installed = False
  policy = None  # callable(kernel_key:str, dim:tuple, index:int) -> (mode:int, key:int)
  cur_kernel = None
  launch_index = 0
  log = None  # list or None
  permuted = 0  # launches with >= 2 tasks executed non-ascending
  launches = 0
  alloc_mode = "NATIVE"  # NATIVE | ZERO | POISON | GARBAGE
  alloc_key = 0
  alloc_count = 0
  kernel_counts = None


S = _State()


def _make_bounds_class(ndim):
  def __init__(self, shape):
    if isinstance(shape, int):
      shape = (shape,)
    size = 1
    for i, extent in enumerate(shape):
      self.shape[i] = extent
      size *= extent
    self.size = size
    self.coord_mult = 1
    mode, key = 0, 0
    pol = S.policy
    if pol is not None and S.cur_kernel is not None and size >= 2:
      mode, key = pol(S.cur_kernel, tuple(shape), S.launch_index)
      if mode != 0:
        S.permuted += 1
    self.vsim_mode = mode
    self.vsim_key = key & 0xFFFFFFFFFFFFFFFF
    if S.cur_kernel is not None:
      if S.log is not None:
        S.log.append((S.launch_index, S.cur_kernel, tuple(shape), mode, key))
      if S.kernel_counts is not None:
        S.kernel_counts[S.cur_kernel] = S.kernel_counts.get(S.cur_kernel, 0) + 1
      S.launch_index += 1
      S.launches += 1
      S.cur_kernel = None

  return type(
    f"launch_bounds_{ndim}d_t",
    (ctypes.Structure,),
    {
      "_fields_": (
        ("shape", ctypes.c_int32 * ndim),
        ("size", ctypes.c_size_t),
        ("coord_mult", ctypes.c_size_t),
        ("vsim_mode", ctypes.c_uint64),
        ("vsim_key", ctypes.c_uint64),
      ),
      "__init__": __init__,
    },
  )


def _fill(arr):
  """Fill a freshly allocated (uninitialised) warp array according to the allocator pattern."""
  mode = S.alloc_mode
  S.alloc_count += 1
  if mode == "NATIVE" or arr.size == 0:
    return arr
  try:
    v = arr.numpy()
  except Exception:
    return arr
  if mode == "ZERO":
    v[...] = 0
    return arr
  kind = v.dtype.kind
  if mode == "POISON":
    if kind == "f":
      v[...] = np.nan
    elif kind in "iu":
      v[...] = 0x3F3F3F3F if v.dtype.itemsize >= 4 else 0x3F
    elif kind == "b":
      v[...] = True
    return arr
  if mode == "GARBAGE":
    from . import rng as _rng

    r = np.random.Generator(np.random.PCG64(_rng.mix(S.alloc_key, S.alloc_count)))
    if kind == "f":
      v[...] = (r.standard_normal(v.shape) * 3.0).astype(v.dtype)
    elif kind in "iu":
      v[...] = r.integers(0, 7, size=v.shape).astype(v.dtype)
    elif kind == "b":
      v[...] = r.integers(0, 2, size=v.shape).astype(bool)
    return arr
  raise ValueError(mode)


def install(cache_dir, debug=False):
  """Install S1 + S2 + launch log. Must be called before mujoco_warp is imported."""
  if S.installed:
    return
  assert "mujoco_warp" not in sys.modules, "seams must be installed before mujoco_warp is imported"
  import warp as wp

  if wp.__version__ != WARP_VERSION:
    raise RuntimeError(f"seam S1 is specific to warp {WARP_VERSION}, found {wp.__version__}")
  import warp._src.codegen as cg
  import warp._src.context as ctx
  import warp._src.types as wt

  if "for (size_t task_index = 0; task_index < dim->size; ++task_index)" not in cg.cpu_module_template_forward:
    raise RuntimeError("unexpected cpu_module_template_forward; seam S1 cannot be installed")
  for n in range(1, 5):
    old = wt._launch_bounds_classes[n]
    names = [f[0] for f in old._fields_]
    if names != ["shape", "size", "coord_mult"]:
      raise RuntimeError("unexpected launch bounds layout")

  os.makedirs(cache_dir, exist_ok=True)
  wp.config.kernel_cache_dir = cache_dir
  wp.config.quiet = True
  if debug:
    wp.config.mode = "debug"
  cg.cpu_module_header = cg.cpu_module_header + _HEADER_EXTRA
  cg.cpu_module_template_forward = _TEMPLATE_FORWARD
  for n in range(1, 5):
    new = _make_bounds_class(n)
    old = wt._launch_bounds_classes[n]
    assert ctypes.sizeof(new) == ctypes.sizeof(old) + 16, (ctypes.sizeof(new), ctypes.sizeof(old))
    wt._launch_bounds_classes[n] = new

  orig_launch = ctx.launch

  def launch(kernel, *args, **kwargs):
    try:
      k = kernel.key
      S.cur_kernel = k if isinstance(k, str) else str(k)
    except Exception:
      S.cur_kernel = "?"
    try:
      return orig_launch(kernel, *args, **kwargs)
    finally:
      S.cur_kernel = None

  launch.__wrapped__ = orig_launch
  ctx.launch = launch
  wp.launch = launch

  orig_empty, orig_empty_like = ctx.empty, ctx.empty_like

  def empty(*args, **kwargs):
    return _fill(orig_empty(*args, **kwargs))

  def empty_like(*args, **kwargs):
    return _fill(orig_empty_like(*args, **kwargs))

  wp.empty = empty
  wp.empty_like = empty_like
  wp.init()
  S.installed = True


# ---- policies -------------------------------------------------------------------------------------------------


def set_policy(policy):
  S.policy = policy


def policy_from_spec(spec):
  """spec: {"default": [mode, key], "kernels": {substr: [mode, key]}, "launches": {index: [mode,key]},
  "only": [substr,...] (if present, non matching kernels run ASC), "perm_per_launch": bool}"""
  if spec is None:
    return None
  from . import rng as _rng

  dmode, dkey = spec.get("default", ["ASC", 0])
  dmode = MODE_IDS[dmode] if isinstance(dmode, str) else dmode
  kernels = {k: (MODE_IDS[v[0]] if isinstance(v[0], str) else v[0], v[1]) for k, v in spec.get("kernels", {}).items()}
  launches = {int(k): (MODE_IDS[v[0]] if isinstance(v[0], str) else v[0], v[1]) for k, v in spec.get("launches", {}).items()}
  only = spec.get("only")
  skip = spec.get("skip")
  per_launch = spec.get("perm_per_launch", True)

  def pol(kernel, dim, index):
    if index in launches:
      return launches[index]
    for sub, mk in kernels.items():
      if sub in kernel:
        return mk
    if only is not None and not any(s in kernel for s in only):
      return (0, 0)
    if skip is not None and any(s in kernel for s in skip):
      return (0, 0)
    if dmode in (PERM, BLOCK) and per_launch:
      return (dmode, _rng.mix(dkey, index))
    return (dmode, dkey)

  return pol


def reset_counters():
  S.launch_index = 0
  S.launches = 0
  S.permuted = 0
  S.alloc_count = 0


def set_alloc(mode, key=0):
  S.alloc_mode = mode
  S.alloc_key = key
