"""Shared scenario pieces used by the property modules."""

import numpy as np

from . import core, models
from . import rng as _rng

NOSLEEP = {"sleep": False}


def pick_model(seed, idx, features=None, size="s", opt=None, curated_p=0.25, accept=None, curated=None, tries=12):
  """Choose a model spec accepted by put_model. Returns (spec, rejected_count)."""
  r = _rng.gen("pick", seed, idx)
  rejected = 0
  for t in range(tries):
    if curated_p and r.random() < curated_p:
      path = (curated or models.CURATED)[int(r.integers(0, len(curated or models.CURATED)))]
      spec = {"src": "file", "path": path, "opt": dict(opt) if opt is not None else models.random_opt(_rng.mix(seed, idx, t, "o"), allow_flags=False)}
      if "humanoid" in path:
        spec["opt"]["iterations"] = 100
    else:
      try:
        spec = models.generate(_rng.mix(seed, idx, t), features=features, size=size, opt=opt, accept=accept, tries=12)
      except RuntimeError:  # no candidate of this sub-seed compiled and passed `accept`: next sub-seed
        continue
    if r.random() < 0.5:
      spec["mopt"] = models.random_mopt(_rng.mix(seed, idx, t, "m"))
    try:
      mjm, m = core.make_model(spec)
    except (NotImplementedError, ValueError):  # core.ModelRejected is a ValueError
      rejected += 1
      continue
    if accept is not None and not accept(mjm):
      continue
    return spec, rejected
  raise RuntimeError("no acceptable model found")


def opt_key(spec):
  o = spec.get("opt") or {}
  bp = (spec.get("mopt") or {}).get("broadphase", 0)
  return f"{o.get('solver', 'newton')}/{o.get('cone', 'pyramidal')}/{o.get('jacobian', 'auto')}/{o.get('integrator', 'euler')}/bp{bp}"


def bucket(n):
  n = int(n)
  return "0" if n == 0 else "1-4" if n <= 4 else "5-16" if n <= 16 else "17-64" if n <= 64 else ">64"


def measure_need(mjm, m, d, ops=None, steps=1):
  """Max nacon / per-world nefc / ncollision seen over `steps` steps on d (d must have ample capacities)."""
  import mujoco_warp as mjw

  need = {"nacon": 0, "nefc": 0, "ncollision": 0}
  for _ in range(steps):
    mjw.step(m, d)
    need["nacon"] = max(need["nacon"], int(d.nacon.numpy()[0]))
    need["nefc"] = max(need["nefc"], int(d.nefc.numpy().max()))
    need["ncollision"] = max(need["ncollision"], int(d.ncollision.numpy()[0]))
  return need


def capacity_overflow(obs_or_d, d=None):
  """True if a capacity overflow is reported (overflow bits) or visible in the counters (forward() alone does not
  set the bits: they are written at the end of step())."""
  if isinstance(obs_or_d, dict):
    o = obs_or_d
    if np.any(o["overflow"] & core.OVERFLOW_CAPACITY):
      return True
    if "_njmax" in o and np.any(o["nefc"] > o["_njmax"]):
      return True
    if "_naconmax" in o and (o.get("_nacon_raw", 0) > o["_naconmax"] or o.get("ncollision", 0) > o["_naconmax"]):
      return True
    return False
  d = obs_or_d
  if np.any(d.overflow.numpy() & core.OVERFLOW_CAPACITY):
    return True
  return bool(np.any(d.nefc.numpy() > d.njmax) or int(d.nacon.numpy()[0]) > d.naconmax or int(d.ncollision.numpy()[0]) > d.naconmax)


def ample_caps(mjm, nworld):
  """Explicit generous capacities from a small fixed set of sizes (bounds the number of kernel specialisations)."""
  g = mjm.ngeom
  nconmax, njmax = (64, 128) if g <= 6 else (128, 256) if g <= 14 else (192, 512)
  if mjm.nv > 40:
    njmax = max(njmax, 256)
  return {"naconmax": nconmax * nworld, "njmax": njmax}


def ddmin_ops(ops, keep_last=0):
  """Candidates for op-list shrinking: drop halves, then single ops, then shorten steps."""
  n = len(ops) - keep_last
  if n <= 0:
    return
  tail = ops[n:]
  head = ops[:n]
  if n >= 2:
    yield head[n // 2 :] + tail
    yield head[: n // 2] + tail
  for i in range(n):
    yield head[:i] + head[i + 1 :] + tail
  for i in range(n):
    if head[i][0] == "step" and len(head[i]) > 1 and head[i][1] > 1:
      yield head[:i] + [["step", head[i][1] // 2]] + head[i + 1 :] + tail
