"""splitmix64-based seed derivation: one integer decides everything."""

import hashlib

import numpy as np

M64 = 0xFFFFFFFFFFFFFFFF


def splitmix64(x):
  x = (x + 0x9E3779B97F4A7C15) & M64
  z = x
  z = ((z ^ (z >> 30)) * 0xBF58476D1CE4E5B9) & M64
  z = ((z ^ (z >> 27)) * 0x94D049BB133111EB) & M64
  return z ^ (z >> 31)


def mix(*parts):
  """Deterministic 64-bit mix of ints and strings (no use of hash())."""
  h = 0x243F6A8885A308D3
  for p in parts:
    if isinstance(p, str):
      p = int.from_bytes(hashlib.sha256(p.encode()).digest()[:8], "little")
    h = splitmix64(h ^ (int(p) & M64))
  return h


def gen(*parts):
  """numpy Generator for a named sub-stream."""
  return np.random.Generator(np.random.PCG64(mix(*parts)))
