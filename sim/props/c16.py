"""C16 - capacity overflow is never silent (fault enumeration over allocation-failure points).

For each probe state S a reference step with ample capacities measures the need of every world: broadphase pairs and
contacts (shared buffer), constraint rows per world, Jacobian non-zeros per world (sparse).  Then every capacity value
c in [0, need+1] of one kind (bounded subsets when the need is large or when a value costs a kernel specialisation) is
injected at make_data time, S is transplanted, overflow bits are cleared and one step is taken.
Oracle per world w:  (1) need_kind(w) > c  =>  the corresponding overflow bit is set in w (shared contact-buffer kinds: in
every world);  (2) no capacity bit set in w  =>  w's counts equal the ample run's and its result equals the ample run's
(bit-exact first, round-off tolerance as fall-back because padding changes tile shapes).
"""

import numpy as np

from .. import core, scen, seams
from .. import rng as _rng

ID = "C16"
LEVEL = "fault_enumeration"
TIERS = {
  "quick": {"runs": 96, "chunk": 6, "budget_s": 480, "timeout_s": 400},
  "thorough": {"runs": 384, "chunk": 6, "budget_s": 1800, "timeout_s": 600},
}
RULE = ("one evaluation = one (probe state, capacity kind, capacity value) step compared world by world with the ample-capacity step from the "
        "same state; per probe state the capacity axis is enumerated completely in [0, need+1] when need <= 24 (else {0,1,2,need-2..need+1} "
        "plus seeded interior values; dense-Newton njmax sweeps are bounded to 6 values per probe in the quick tier because each value is a "
        "kernel specialisation); probe states are sampled along seeded histories of generated/curated models; non-trivial = the injected "
        "capacity was <= need (an allocation actually failed or was exact-fit); distinct = (kind, relation to need in {zero, short, "
        "one-short, exact-fit, one-spare}, row kinds at the boundary, jacobian, cone, solver) tuples")
ASSUMPTIONS = ["overflow bits are cleared before the compared step (they are sticky)", "clause (2) tolerance: 1e-5 + rtol*scale with rtol 1e-4 "
               "(position level) / 5e-3 (force level); solver-dependent fields skipped when an iteration or line-search limit was hit",
               "nvmax (active-DOF capacity) is swept by C38, not here", "probe states are sampled, the capacity axis per probe state is enumerated"]

NEFC, NNZ, BROAD, NARROW, CCD = 1, 2, 4, 8, 16
CONTACT_BITS = BROAD | NARROW | CCD | 32 | 64 | 256
EXACT_INT = {"ne", "nf", "nl", "nefc", "contact.count", "contact.dim", "contact.geom", "efc.type", "efc.id"}
SKIP = {"solver_niter", "overflow", "efc.state", "efc.D", "tree_asleep", "tree_awake", "body_awake", "tree_island", "ntree_awake", "nbody_awake", "nv_awake"}
PRE_SOLVER_SKIP = {"qacc", "qfrc_constraint", "efc.force", "qacc_warmstart", "qvel", "qpos", "act", "cacc", "cfrc_int", "cfrc_ext", "sensordata",
                   "act_dot", "history", "energy", "time"}


def gen(seed, idx, tier):
  r = _rng.gen("c16", seed, idx)
  feats = {"plane": True}
  for k in ("eq_connect", "eq_weld", "eq_joint", "limits", "frictionloss", "tendon_fixed", "tendon_spatial", "condim_mix", "dense_contacts"):
    if r.random() < 0.5:
      feats[k] = True
  spec, rejected = scen.pick_model(seed, idx, features=feats, size="s", curated_p=0.2)
  rs = _rng.gen("c16sleep", seed, idx)  # separate stream: the other draws of this run stay what they were before this knob existed
  if rs.random() < 0.2:
    # sleeping enabled: fwd_position runs two collision passes (full, then incremental for newly woken bodies) over the same buffers
    spec["opt"].update(sleep=True, solver="newton", sleep_tolerance=float(rs.choice([0.02, 0.3])))
    spec["opt"]["disableflags"] = int(spec["opt"].get("disableflags", 0)) & ~262144
  return {
    "property": ID, "seed": seed, "idx": idx, "model": spec, "nworld": int(r.choice([1, 2, 2, 3])), "rejected_models": rejected, "tier": tier,
    "init": {"seed": int(r.integers(1 << 30)), "pos_noise": 0.15, "vel_noise": 0.8},
    "hist_seed": int(r.integers(1 << 30)), "probes": int(r.integers(1, 4)), "gap": int(r.integers(1, 12)),
    "kinds": [str(x) for x in r.permutation(["njmax", "naconmax", "njmax_nnz"])],
    "value_seed": int(r.integers(1 << 30)), "sched_p": float(r.choice([0.0, 0.3])),
  }  # fmt: skip


def _values(need, r, limit=None):
  if need <= 24:
    vals = list(range(0, need + 2))
  else:
    vals = sorted({0, 1, 2, need - 2, need - 1, need, need + 1} | {int(x) for x in r.integers(3, need - 2, size=4)})
  if limit is not None and len(vals) > limit:
    keep = {0, max(0, need - 1), need, need + 1}
    rest = [v for v in vals if v not in keep]
    extra = [rest[i] for i in r.choice(len(rest), size=max(0, limit - len(keep)), replace=False)] if rest else []
    vals = sorted(keep | set(extra))
  return vals


def _relation(c, need):
  return "zero" if c == 0 and need > 0 else "exact-fit" if c == need else "one-short" if c == need - 1 else "short" if c < need else "one-spare" if c == need + 1 else "spare"


def _row_kinds(view):
  t = view["efc.type"]
  names = {0: "eq", 1: "fdof", 2: "ften", 3: "ljnt", 4: "lten", 5: "cfl", 6: "cpyr", 7: "cell"}
  return "+".join(sorted({names.get(int(x), "?") for x in t}))


def run(sc):
  import mujoco_warp as mjw

  mjm, m = core.make_model(sc["model"])
  nworld = sc["nworld"]
  stats = {"evaluations": 0, "nontrivial": [], "faults": {}, "skipped": {}, "sim_time": 0.0, "sets": {}}
  faults = stats["faults"]

  def fault(k, n=1):
    faults[k] = faults.get(k, 0) + n

  ample = scen.ample_caps(mjm, nworld)
  ample["njmax_nnz"] = ample["njmax"] * max(1, mjm.nv)
  sparse = bool(m.is_sparse)
  dense_newton = (not sparse) and sc["model"]["opt"].get("solver", "newton") == "newton"
  quick = sc.get("tier", "quick") != "thorough"
  rk4 = int(mjm.opt.integrator) == 1  # mjINT_RK4
  seams.set_alloc("ZERO")
  R = core.make_data(mjm, m, {"nworld": nworld, "how": "make", "caps": ample, "init": sc["init"]})
  cr = core.Ctx(mjm, m, R)
  viols = []
  okey = scen.opt_key(sc["model"]) + ("/sleep" if core.sleep_enabled(m) else "")
  for p in range(sc["probes"]):
    for o in core.random_history(_rng.mix(sc["hist_seed"], p), mjm, nworld, sc["gap"]):
      core.apply_op(cr, o)
    S = core.get_istate(mjm, m, R)
    if not np.all(np.isfinite(S)) or scen.capacity_overflow(R) or float(np.max(np.abs(S[:, 1 : 1 + mjm.nq + mjm.nv]))) > 1e3:
      stats["skipped"]["bad_probe_state"] = stats["skipped"].get("bad_probe_state", 0) + 1
      break
    REF = core.make_data(mjm, m, {"nworld": nworld, "how": "make", "caps": ample})
    core.set_istate(mjm, m, REF, S)
    with core.StageNeed() as tap:
      mjw.step(m, REF)
    ref = core.snapshot(m, REF)
    if scen.capacity_overflow(ref):
      stats["skipped"]["ample_run_overflows"] = stats["skipped"].get("ample_run_overflows", 0) + 1
      continue
    ref_lim = int(ref["overflow"].max()) & (core.OV_ITER | core.OV_LS)
    refv = [core.canon_view(ref, w) for w in range(nworld)]
    refraw = [core.world_view(ref, w) for w in range(nworld)]
    # need = maximum over every forward() inside the step (RK4 evaluates four states), not only the last one
    need_nefc = [max(int(ref["nefc"][w]), int(tap.nefc[w]) if tap.nefc is not None else 0) for w in range(nworld)]
    need_con = max(int(ref["_nacon_raw"]), int(ref["ncollision"]), tap.nacon, tap.ncollision)
    stage_excess = tap.calls > 1 and (any(need_nefc[w] > int(ref["nefc"][w]) for w in range(nworld)) or need_con > max(int(ref["_nacon_raw"]), int(ref["ncollision"])))
    if stage_excess:
      fault("intermediate_stage_needs_more_than_final_stage")
    need_nnz = [0] * nworld
    if sparse:
      e = ref["efc"]
      for w in range(nworld):
        n = int(ref["nefc"][w])
        need_nnz[w] = int((e["J_rowadr"][w, :n] + e["J_rownnz"][w, :n]).max()) if n else 0
    rv = _rng.gen("vals", sc["value_seed"], p)
    for kind in sc["kinds"]:
      if kind == "njmax_nnz" and not sparse:
        continue
      need = {"njmax": max(need_nefc), "naconmax": need_con, "njmax_nnz": max(need_nnz)}[kind]
      if need == 0:
        stats["skipped"]["no_need_for_" + kind] = stats["skipped"].get("no_need_for_" + kind, 0) + 1
        continue
      limit = 6 if (kind == "njmax" and dense_newton and quick) else (14 if quick else None)
      for c in _values(need, rv, limit):
        caps = dict(ample)
        caps[kind] = c
        try:
          D = core.make_data(mjm, m, {"nworld": nworld, "how": "make", "caps": caps})
        except ValueError:
          stats["skipped"]["make_data_rejects"] = stats["skipped"].get("make_data_rejects", 0) + 1
          continue
        core.set_istate(mjm, m, D, S)
        core.clear_overflow(D)
        permuted = False
        # RK4 re-evaluates forward() at states that depend on the solver output of the previous stage: under another task order the
        # later stages (and their need) legitimately drift, so the ascending ample run is no reference for a permuted RK4 step
        if sc["sched_p"] and rv.random() < sc["sched_p"] and not rk4:
          seams.set_policy(seams.policy_from_spec({"default": ["PERM", int(rv.integers(1 << 40))]}))
          seams.reset_counters()
          permuted = True
        try:
          mjw.step(m, D)
        finally:
          seams.set_policy(None)
        stats["evaluations"] += 1
        stats["sim_time"] += float(mjm.opt.timestep) * nworld
        got = core.snapshot(m, D)
        ov = got["overflow"]
        rel = _relation(c, need)
        if c <= need:
          fault(f"{kind}_{rel}")
          if permuted:
            fault("permuted_schedule_with_fault")
        lim = (int(ov.max()) & (core.OV_ITER | core.OV_LS)) | ref_lim
        for w in range(nworld):
          nk = {"njmax": need_nefc[w], "naconmax": need_con, "njmax_nnz": need_nnz[w]}[kind]
          bits = int(ov[w])
          rows = _row_kinds(refraw[w])
          if c <= nk:
            stats["nontrivial"].append(f"{kind}|{_relation(c, nk)}|{rows}|{okey}")
          # clause (1)
          if nk > c:
            want = {"njmax": NEFC, "naconmax": BROAD | NARROW | CCD, "njmax_nnz": NNZ | NEFC}[kind]
            if not (bits & want):
              final_need = {"njmax": int(ref["nefc"][w]), "naconmax": max(int(ref["_nacon_raw"]), int(ref["ncollision"])), "njmax_nnz": nk}[kind]
              viols.append({"class": {"oracle": "silent_overflow", "clause": "bit_missing", "kind": kind, "relation": _relation(c, nk), "jacobian": "sparse" if sparse else "dense",
                                      "only_intermediate_stage_overflows": bool(final_need <= c), "sleep": bool(core.sleep_enabled(m))},
                            "detail": {"probe": p, "world": w, "capacity": c, "need": nk, "overflow_bits": bits, "rows": rows, "permuted": permuted,
                                       "nefc_reported": int(got["nefc"][w]), "caps": {k: caps[k] for k in ("naconmax", "njmax", "njmax_nnz")}}})
              continue
          # clause (2)
          if bits & core.OVERFLOW_CAPACITY:
            continue
          if permuted:
            a, b = core.canon_view(got, w), refv[w]
          else:
            a, b = core.world_view(got, w), refraw[w]
          exact = not core.diff_views(a, b, skip=("overflow", "solver_niter"))
          stats["sets"].setdefault("clause2_bit_identical", []).append(str(exact))
          if exact:
            continue
          if not permuted:
            a, b = core.canon_view(got, w), refv[w]
          # a permuted step differs from the ascending reference by the re-association round-off that C11 bounds, amplified by the
          # solver (order of rows): only what is a function of the probe state alone (counts, contacts, rows, Jacobian, smooth
          # dynamics) is attributed to the capacity here; solver-level fields are compared under the ascending order only
          skip = set(SKIP) | (PRE_SOLVER_SKIP if (lim or permuted) else set())
          if permuted:
            stats["skipped"]["solver_fields_not_compared_under_permuted_schedule"] = stats["skipped"].get("solver_fields_not_compared_under_permuted_schedule", 0) + 1
          bad = core.tol_diff(a, b, core.STATE_LEVEL, skip=skip, exact_int=EXACT_INT, stats=stats, tag="clause2")
          if bad:
            f, info = bad[0]
            viols.append({"class": {"oracle": "silent_overflow", "clause": "no_bit_but_result_differs", "kind": kind, "relation": _relation(c, nk),
                                    "jacobian": "sparse" if sparse else "dense", "field_kind": "count" if f in EXACT_INT else "value"},
                          "detail": {"probe": p, "world": w, "capacity": c, "need": nk, "field": f, "fields": [x[0] for x in bad][:8], "first": info, "rows": rows,
                                     "permuted": permuted, "caps": {k: caps[k] for k in ("naconmax", "njmax", "njmax_nnz")}}})
        if len(viols) > 12:
          break
      if len(viols) > 12:
        break
    if len(viols) > 12:
      break
  stats["sample"] = {"model": sc["model"].get("path", "generated:" + ",".join(sc["model"].get("features", []))[:120]), "opt": sc["model"].get("opt"),
                     "nworld": nworld, "kinds": sc["kinds"], "probes": sc["probes"], "ample": ample}
  # one violation per class is enough for the report
  seen, out = set(), []
  for v in viols:
    k = core.jdump(v["class"])
    if k not in seen:
      seen.add(k)
      out.append(v)
  return {"violations": out, "stats": stats, "digest": core.digest(core.get_istate(mjm, m, R))}


def shrink(sc):
  base = dict(sc)
  if base["probes"] > 1:
    yield dict(base, probes=base["probes"] - 1)
  if len(base["kinds"]) > 1:
    for k in base["kinds"]:
      yield dict(base, kinds=[k])
  if base["nworld"] > 1:
    yield dict(base, nworld=base["nworld"] - 1)
  if base["sched_p"]:
    yield dict(base, sched_p=0.0)
  if base["gap"] > 1:
    yield dict(base, gap=base["gap"] // 2)
