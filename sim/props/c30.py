"""C30 - delayed controls and sensors read the right past sample (simulated time, circular history buffers).

Plants with negligible float32/float64 drift (independent sliders and hinges, no contacts, unit-gear motors so that
actuator_force IS the applied control) carry actuators and sensors with delay / nsample / interp / interval. Timesteps and
delays are dyadic rationals so that the float32 and float64 clocks agree exactly. The same op sequence (random controls long
enough to wrap every buffer several times, resets, history initialisation, timed reads) drives mujoco_warp and MuJoCo C.
Oracle: at every step the applied control (actuator_force), the reported sensordata and the history buffers agree; read_ctrl
and read_sensor agree with mj_readCtrl / mj_readSensor at seeded query times and interpolation orders - starting from
make_data, put_data and after reset_data.
"""

import numpy as np

from .. import core, scen, seams
from .. import rng as _rng

ID = "C30"
LEVEL = "exploration"
TIERS = {
  "quick": {"runs": 96, "chunk": 8, "budget_s": 420, "timeout_s": 300},
  "thorough": {"runs": 768, "chunk": 16, "budget_s": 1500, "timeout_s": 300},
}
RULE = ("one evaluation = one step (or one timed read) compared between mujoco_warp and MuJoCo C on the same op history; models: 1-4 "
        "independent slide/hinge plants with motors and jointpos/jointvel/actuatorfrc/clock sensors, each with seeded delay in {0,1,2,4,7} "
        "timesteps, nsample in {1..6}, interp in {zoh, linear, cubic}, interval in {0,1,2,3} timesteps; dyadic timesteps; start mode in {make_data, "
        "put_data, after reset_data, after init_*_history}; histories long enough to wrap the buffers; non-trivial = the buffer of some actuator "
        "or sensor had wrapped at least once when compared; distinct = (start mode, delay/nsample/interp/interval signature bucket, read kind) tuples")
ASSUMPTIONS = ["MuJoCo 3.13 is the reference for history semantics", "tolerance 1e-5 + 1e-4*|ref| on sensor samples and applied controls (float32 plant "
               "vs float64 plant), exact for time stamps on dyadic grids (1e-7)"]


def _xml(r):
  n = int(r.integers(1, 5))
  dt_exp = int(r.choice([7, 8, 9]))
  dt = 2.0 ** -dt_exp
  wb, act, sen = "", "", ""
  for i in range(n):
    t = str(r.choice(["slide", "hinge"]))
    wb += f'    <body name="b{i}" pos="{i} 0 0"><joint name="j{i}" type="{t}" axis="0 0 1" damping="{round(float(r.uniform(0.5, 3)), 3)}" stiffness="{round(float(r.uniform(0, 20)), 3)}"/><geom size="0.1" mass="{round(float(r.uniform(0.5, 3)), 3)}"/></body>\n'
    for a in range(int(r.integers(1, 3))):
      attr = ""
      if r.random() < 0.8:
        attr += f' nsample="{int(r.integers(1, 7))}"'
        if r.random() < 0.8:
          attr += f' delay="{float(r.choice([0, 1, 2, 4, 7])) * dt!r}"'
        attr += f' interp="{r.choice(["zoh", "linear", "cubic"])}"'
      act += f'    <motor name="a{i}_{a}" joint="j{i}" gear="1"{attr}/>\n'
    for s in range(int(r.integers(0, 3))):
      kind = str(r.choice(["jointpos", "jointvel", "jointpos", "framepos", "framelinvel", "frameangvel", "framequat"]))
      attr = ""
      if r.random() < 0.85:
        attr += f' nsample="{int(r.integers(1, 7))}"'
        if r.random() < 0.7:
          attr += f' delay="{float(r.choice([1, 2, 4, 7])) * dt!r}" interp="{r.choice(["zoh", "linear", "cubic"])}"'
        if r.random() < 0.4:
          attr += f' interval="{float(r.choice([1, 2, 3])) * dt!r}"'
      if kind.startswith("frame"):
        # vector-valued samples (dim 3 / 4): every stored component has to be delayed, wrapped and reset, not only the first
        sen += f'    <{kind} name="s{i}_{s}" objtype="body" objname="b{i}"{attr}/>\n'
      else:
        sen += f'    <{kind} name="s{i}_{s}" joint="j{i}"{attr}/>\n'
  if r.random() < 0.3:
    sen += f'    <clock name="clk" nsample="3" delay="{2 * dt!r}"/>\n'
  xml = f'<mujoco>\n  <option timestep="{dt!r}" gravity="0 0 0" integrator="{r.choice(["Euler", "implicitfast"])}"/>\n  <worldbody>\n{wb}  </worldbody>\n  <actuator>\n{act}  </actuator>\n'
  if sen:
    xml += f"  <sensor>\n{sen}  </sensor>\n"
  return xml + "</mujoco>\n"


def gen(seed, idx, tier):
  r = _rng.gen("c30", seed, idx)
  import mujoco

  for t in range(20):
    xml = _xml(_rng.gen("c30xml", seed, idx, t))
    try:
      mjm = mujoco.MjModel.from_xml_string(xml)
    except Exception:
      continue
    if mjm.nhistory > 0:
      break
  return {
    "property": ID, "seed": seed, "idx": idx, "model": {"src": "xml", "xml": xml, "opt": {}}, "nworld": int(r.choice([1, 2])),
    "start": str(r.choice(["make", "put", "reset", "init"])), "steps": int(r.integers(10, 80)), "hist_seed": int(r.integers(1 << 30)),
    "reads": int(r.integers(0, 6)),
  }  # fmt: skip


def run(sc):
  import mujoco
  import warp as wp

  import mujoco_warp as mjw

  mjm, m = core.make_model(sc["model"])
  nworld = sc["nworld"]
  stats = {"evaluations": 0, "nontrivial": [], "faults": {}, "skipped": {}, "sim_time": 0.0, "sets": {}}
  faults = stats["faults"]
  r = _rng.gen("c30run", sc["hist_seed"])
  dt = float(mjm.opt.timestep)
  mjds = [mujoco.MjData(mjm) for _ in range(nworld)]
  start = sc["start"]
  seams.set_alloc("ZERO")
  if start == "put":
    d = mjw.put_data(mjm, mjds[0], nworld=nworld)
  else:
    d = mjw.make_data(mjm, nworld=nworld)
  viols = []

  def viol(oracle, field, detail):
    viols.append({"class": {"oracle": oracle, "field": field, "start": start}, "detail": detail})

  def set_ctrl():
    c = r.uniform(-1, 1, (nworld, mjm.nu))
    d.ctrl.numpy()[...] = c.astype(np.float32)
    for w in range(nworld):
      mjds[w].ctrl[:] = c[w].astype(np.float32)

  def both_step():
    mjw.step(m, d)
    for w in range(nworld):
      mujoco.mj_step(mjm, mjds[w])
    stats["sim_time"] += dt * nworld

  if start == "reset":
    # a previous life, then reset on both sides
    for _ in range(int(r.integers(3, 25))):
      set_ctrl()
      both_step()
    if nworld > 1 and r.random() < 0.5:
      # masked reset: only the last world restarts, the other keeps its buffers mid-history
      mask = np.zeros(nworld, dtype=bool)
      mask[-1] = True
      mjw.reset_data(m, d, wp.array(mask, dtype=bool))
      mujoco.mj_resetData(mjm, mjds[-1])
      faults["masked_reset_before_history"] = 1
    else:
      mjw.reset_data(m, d)
      for w in range(nworld):
        mujoco.mj_resetData(mjm, mjds[w])
    faults["reset_before_history"] = 1
  elif start == "init":
    for a in range(mjm.nu):
      n = int(mjm.actuator_history[a, 0])
      if n > 0:
        vals = r.uniform(-1, 1, (nworld, n))
        times = (np.arange(n) - n) * dt
        mjw.init_ctrl_history(m, d, a, wp.array(times.astype(np.float32), dtype=float), wp.array(vals.astype(np.float32), dtype=float))
        for w in range(nworld):
          mujoco.mj_initCtrlHistory(mjm, mjds[w], a, times.reshape(-1, 1), vals[w].astype(np.float32).astype(np.float64).reshape(-1, 1))
    faults["init_ctrl_history"] = 1
  wrap_need = 1 + int(max([0] + [int(x) for x in mjm.actuator_history[:, 0]] + [int(x) for x in (mjm.sensor_history[:, 0] if mjm.nsensor else [])]))
  sig = f"{start}|nh{scen.bucket(mjm.nhistory)}"

  def close(a, b, rtol=1e-4, atol=1e-5):
    a, b = np.asarray(a, dtype=np.float64), np.asarray(b, dtype=np.float64)
    return bool(np.all(np.abs(a - b) <= atol + rtol * np.abs(b)))

  for k in range(sc["steps"]):
    set_ctrl()
    both_step()
    stats["evaluations"] += nworld
    if k >= wrap_need:
      stats["nontrivial"].append(sig + "|step")
    af, sd, hi, tm = d.actuator_force.numpy(), d.sensordata.numpy(), d.history.numpy(), d.time.numpy()
    bad = None
    for w in range(nworld):
      if abs(float(tm[w]) - mjds[w].time) > 1e-7:
        bad = ("time", {"world": w, "got": float(tm[w]), "want": mjds[w].time})
      elif not close(af[w], mjds[w].actuator_force):
        i = int(np.argmax(np.abs(af[w] - mjds[w].actuator_force)))
        bad = ("applied_control", {"world": w, "actuator": i, "got": float(af[w][i]), "want": float(mjds[w].actuator_force[i]),
                                   "delay_steps": float(mjm.actuator_delay[i] / dt), "nsample": int(mjm.actuator_history[i, 0]), "interp": int(mjm.actuator_history[i, 1])})
      elif mjm.nsensordata and not close(sd[w], mjds[w].sensordata):
        i = int(np.argmax(np.abs(sd[w] - mjds[w].sensordata)))
        sid = int(np.searchsorted(mjm.sensor_adr, i, side="right") - 1)
        bad = ("sensordata", {"world": w, "sensor": sid, "got": float(sd[w][i]), "want": float(mjds[w].sensordata[i]), "delay_steps": float(mjm.sensor_delay[sid] / dt),
                              "nsample": int(mjm.sensor_history[sid, 0]), "interp": int(mjm.sensor_history[sid, 1]), "interval_steps": float(mjm.sensor_interval[sid, 0] / dt)})
      elif not close(hi[w], mjds[w].history):
        i = int(np.argmax(np.abs(hi[w] - mjds[w].history)))
        bad = ("history", {"world": w, "index": i, "got": float(hi[w][i]), "want": float(mjds[w].history[i])})
      if bad:
        break
    if bad:
      viol("matches_mujoco_history", bad[0], dict(bad[1], step=k + 1))
      break
  # ---- timed reads
  if not viols:
    for q in range(sc["reads"]):
      tq = float(d.time.numpy()[0]) - float(r.integers(0, 9)) * dt * float(r.choice([1.0, 0.5, 0.25]))
      interp = int(r.choice([-1, 0, 1, 2]))
      tarr = wp.array(np.full(nworld, tq, dtype=np.float32), dtype=float)
      if mjm.nu and r.random() < 0.5:
        a = int(r.integers(0, mjm.nu))
        res = wp.zeros(nworld, dtype=float)
        mjw.read_ctrl(m, d, a, tarr, interp, res)
        stats["evaluations"] += nworld
        stats["nontrivial"].append(sig + "|read_ctrl")
        for w in range(nworld):
          want = mujoco.mj_readCtrl(mjm, mjds[w], a, tq, interp if interp >= 0 else int(mjm.actuator_history[a, 1]))
          if not close(res.numpy()[w], want):
            viol("read_matches_mujoco", "read_ctrl", {"world": w, "actuator": a, "t_query": tq, "now": float(d.time.numpy()[0]), "interp": interp, "got": float(res.numpy()[w]), "want": float(want),
                                                      "nsample": int(mjm.actuator_history[a, 0])})
            break
      elif mjm.nsensor:
        sid = int(r.integers(0, mjm.nsensor))
        dim = int(mjm.sensor_dim[sid])
        res = wp.zeros((nworld, dim), dtype=float)
        mjw.read_sensor(m, d, sid, tarr, interp, res)
        stats["evaluations"] += nworld
        stats["nontrivial"].append(sig + "|read_sensor")
        for w in range(nworld):
          buf = np.zeros((dim, 1))
          out = mujoco.mj_readSensor(mjm, mjds[w], sid, tq, buf, interp if interp >= 0 else int(mjm.sensor_history[sid, 1]))
          want = np.asarray(out if out is not None else buf).reshape(-1)[:dim]
          if not close(res.numpy()[w], want):
            viol("read_matches_mujoco", "read_sensor", {"world": w, "sensor": sid, "t_query": tq, "now": float(d.time.numpy()[0]), "interp": interp, "got": res.numpy()[w].tolist(), "want": want.tolist(),
                                                        "nsample": int(mjm.sensor_history[sid, 0])})
            break
      if viols:
        break
  stats["sample"] = {"xml": sc["model"]["xml"][:900], "start": start, "steps": sc["steps"], "nworld": nworld, "nhistory": int(mjm.nhistory)}
  return {"violations": viols, "stats": stats, "digest": core.digest({"h": d.history.numpy()})}


def shrink(sc):
  base = dict(sc)
  if base["steps"] > 1:
    yield dict(base, steps=max(1, base["steps"] // 2))
    yield dict(base, steps=base["steps"] - 1)
  if base["reads"] > 0:
    yield dict(base, reads=0)
  if base["nworld"] > 1:
    yield dict(base, nworld=1)
