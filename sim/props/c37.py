"""C37 - pipeline stages compose: step1;step2 == step (Euler, implicitfast, implicit), forward() never changes the
integration state, forward();forward() == forward().

Twin Data objects receive the same integration state S (taken from a seeded history) and are driven through the two
call sequences; every live per-world field, listed contact and listed row must be bit-identical.
"""

import numpy as np

from .. import core, scen, seams
from .. import rng as _rng

ID = "C37"
LEVEL = "exploration"
TIERS = {
  "quick": {"runs": 96, "chunk": 6, "budget_s": 420, "timeout_s": 300},
  "thorough": {"runs": 384, "chunk": 8, "budget_s": 1500, "timeout_s": 300},
}
RULE = ("one evaluation = one law instance on one state: L1 step vs step1;step2 (Euler/implicitfast/implicit, sleep disabled), L2 forward "
        "leaves get_state(INTEGRATION) bit-unchanged, L3 forward;forward == forward in every output; states are probe points of seeded "
        "multi-world histories on generated or curated models, repeated for several consecutive steps so the laws are also applied to Data "
        "whose scratch was produced by the other call sequence; non-trivial = the state had >=1 constraint row; distinct = (law, "
        "solver/cone/jacobian/integrator/broadphase, nefc bucket, actuator-dynamics/delay features) tuples")
ASSUMPTIONS = ["L1 is checked for sleep-disabled models only (with sleeping, step wakes trees that step1 does not: outside the statement)",
               "comparisons stop at a reported capacity overflow"]


def gen(seed, idx, tier):
  r = _rng.gen("c37", seed, idx)
  spec, rejected = scen.pick_model(seed, idx, features=scen.NOSLEEP, size="s" if r.random() < 0.7 else "m",
                                   opt=None, curated_p=0.25)
  if spec["opt"].get("integrator") == "rk4" and r.random() < 0.7:
    spec["opt"]["integrator"] = str(r.choice(["euler", "implicitfast", "implicit"]))
  return {
    "property": ID, "seed": seed, "idx": idx, "model": spec, "nworld": int(r.choice([1, 2, 3])), "rejected_models": rejected,
    "init": {"seed": int(r.integers(1 << 30)), "pos_noise": 0.15, "vel_noise": 1.0, "act_noise": 0.3},
    "hist_seed": int(r.integers(1 << 30)), "hist_steps": int(r.integers(0, 30)), "K": int(r.integers(1, 6)),
    "alloc": [str(r.choice(["ZERO", "POISON", "GARBAGE"])), int(r.integers(1 << 30))],
  }  # fmt: skip


def _cmp(a, b):
  bad = []
  for name in a:
    if name.startswith("_"):
      continue
    if isinstance(a[name], np.ndarray):
      if not core.bits_equal(a[name], b[name]):
        bad.append((name, core.first_diff(a[name], b[name])))
  n = a["nefc"]
  for f in core.EFC_ROW_FIELDS + core.EFC_PAD_FIELDS:
    x = np.concatenate([a["efc"][f][w, : min(int(n[w]), a["_njmax"])] for w in range(n.shape[0])])
    y = np.concatenate([b["efc"][f][w, : min(int(b["nefc"][w]), b["_njmax"])] for w in range(n.shape[0])])
    if not core.bits_equal(x, y):
      bad.append(("efc." + f, core.first_diff(x, y) if x.shape == y.shape else {"shape": [list(x.shape), list(y.shape)]}))
  for f in a["contact"]:
    if not core.bits_equal(a["contact"][f], b["contact"][f]):
      bad.append(("contact." + f, None))
  if a["nacon"] != b["nacon"]:
    bad.append(("nacon", {"a": a["nacon"], "b": b["nacon"]}))
  return bad


STATE_LEVEL = {"qpos", "qvel", "act", "time", "xpos", "xquat", "xmat", "xipos", "ximat", "geom_xpos", "geom_xmat", "site_xpos", "site_xmat",
               "subtree_com", "cinert", "cdof", "ten_length", "actuator_length", "history", "ctrl", "mocap_pos", "mocap_quat", "userdata",
               "qfrc_applied", "xfrc_applied", "xanchor", "xaxis", "ten_J", "actuator_moment", "crb", "M"}
INT_EXACT = {"ne", "nf", "nl", "nefc", "eq_active"}


def _cmp_tol(a, b, stats):
  """step vs step1;step2: the two sequences factorise the inertia matrix along different code paths (fused factor-and-solve vs
  factor then solve), so floats agree only up to round-off: |x-y| <= atol + rtol * max|ref| with rtol 1e-4 for position/state level
  fields and 2e-2 for force/acceleration level fields (the constraint solver amplifies a 1-ulp difference of qacc_smooth).
  Counts are exact. Skipped when a solver budget was exhausted in either run."""
  if (int(a["overflow"].max()) | int(b["overflow"].max())) & (core.OV_ITER | core.OV_LS):
    stats["skipped"]["solver_budget_hit"] = stats["skipped"].get("solver_budget_hit", 0) + 1
    return []
  bad = []
  exact = True
  for name in a:
    if name.startswith("_") or not isinstance(a[name], np.ndarray):
      continue
    x, y = a[name], b[name]
    if core.bits_equal(x, y):
      continue
    exact = False
    if name in ("solver_niter", "overflow"):
      continue
    if x.dtype.kind != "f":
      if name in INT_EXACT:
        bad.append((name, core.first_diff(x, y)))
      continue
    xf, yf = x.astype(np.float64), y.astype(np.float64)
    if not (np.all(np.isfinite(xf)) and np.all(np.isfinite(yf))):
      if not np.array_equal(np.isfinite(xf), np.isfinite(yf)):
        bad.append((name, {"nonfinite": True}))
      continue
    rtol = 1e-4 if name in STATE_LEVEL else 2e-2
    tol = 1e-5 + rtol * max(1e-3, float(np.max(np.abs(yf))))
    err = float(np.max(np.abs(xf - yf)))
    stats["faults"]["L1_worst_err_over_tol_x1000"] = max(stats["faults"].get("L1_worst_err_over_tol_x1000", 0), int(1000 * err / tol))
    if err > tol:
      bad.append((name, {"err": err, "tol": tol}))
  stats["sets"].setdefault("L1_bit_identical", []).append(str(exact))
  return bad


def run(sc):
  import mujoco_warp as mjw

  mjm, m = core.make_model(sc["model"])
  nworld, K = sc["nworld"], sc["K"]
  stats = {"evaluations": 0, "nontrivial": [], "faults": {}, "skipped": {}, "sim_time": 0.0, "sets": {}}
  caps = scen.ample_caps(mjm, nworld)
  seams.set_alloc(*sc["alloc"])
  mk = lambda init: core.make_data(mjm, m, {"nworld": nworld, "how": "make", "caps": caps, "init": init})
  A, B, F = mk(sc["init"]), mk(sc["init"]), mk(sc["init"])
  ca, cb, cf = core.Ctx(mjm, m, A), core.Ctx(mjm, m, B), core.Ctx(mjm, m, F)
  hist = sc.get("ops")
  if hist is None:
    hist = core.random_history(sc["hist_seed"], mjm, nworld, sc["hist_steps"]) if sc["hist_steps"] else []
  for op in hist:
    for cx in (ca, cb, cf):
      core.apply_op(cx, op)
  integ = sc["model"]["opt"].get("integrator", "euler")
  feat = ("dyn" if mjm.na else "") + ("+hist" if mjm.nhistory else "")
  viols = []
  import mujoco

  comps, off = [], 0
  for bit in range(int(mujoco.mjtState.mjNSTATE)):
    n = mujoco.mj_stateSize(mjm, 1 << bit)
    comps.append((mujoco.mjtState(1 << bit).name.replace("mjSTATE_", "").lower(), off, off + n))
    off += n
  hist_ab = next((a, b) for name, a, b in comps if name == "history")
  for k in range(K):
    inputs = core.random_history(_rng.mix(sc["hist_seed"], "in", k), mjm, nworld, 1)[:-1]
    for op in inputs:
      for cx in (ca, cb, cf):
        core.apply_op(cx, op)
    # ---- L2 / L3 on F (then F takes a plain step to stay in lock-step with A)
    s0 = core.get_istate(mjm, m, F)
    mjw.forward(m, F)
    s1 = core.get_istate(mjm, m, F)
    o1 = core.snapshot(m, F)
    stats["evaluations"] += 1
    key = f"{scen.opt_key(sc['model'])}|nefc{scen.bucket(o1['nefc'].max())}|{feat}"
    if int(o1["nefc"].max()) > 0:
      stats["nontrivial"].append("L2|" + key)
    if not core.bits_equal(s0, s1):
      i = np.argwhere(~((s0 == s1) | (np.isnan(s0) & np.isnan(s1))))[0]
      comp = next(name for name, a, b in comps if a <= int(i[1]) < b)
      viols.append({"class": {"oracle": "forward_preserves_state", "law": "L2", "component": comp},
                    "detail": {"step": k, "world": int(i[0]), "state_index": int(i[1]), "before": float(s0[tuple(i)]), "after": float(s1[tuple(i)]),
                               "nsensor_with_history": int((mjm.sensor_history[:, 0] > 0).sum()) if mjm.nsensor else 0}})
      if comp != "history" or not core.bits_equal(np.delete(s0, np.s_[hist_ab[0]:hist_ab[1]], axis=1), np.delete(s1, np.s_[hist_ab[0]:hist_ab[1]], axis=1)):
        break
      # known-defect resynchronisation (DESIGN 5.5): put the history component back and continue with the other laws
      core.set_istate(mjm, m, F, s0)
      stats["faults"]["resync_history_after_forward"] = stats["faults"].get("resync_history_after_forward", 0) + 1
    hpre = core.get_istate(mjm, m, F)
    mjw.forward(m, F)
    core.set_istate(mjm, m, F, hpre)
    o2 = core.snapshot(m, F)
    stats["evaluations"] += 1
    if int(o1["nefc"].max()) > 0:
      stats["nontrivial"].append("L3|" + key)
    if not scen.capacity_overflow(o1):
      bad = [x for x in _cmp(o1, o2) if x[0] != "history"]  # history is durable state: decided by L2 (and re-synchronised above)
      if bad:
        viols.append({"class": {"oracle": "forward_idempotent", "law": "L3", "field": bad[0][0]}, "detail": {"step": k, "fields": [x[0] for x in bad][:10], "first": bad[0][1]}})
        break
    mjw.step(m, F)
    # ---- L1: A takes step, B takes step1;step2
    if integ != "rk4":
      mjw.step(m, A)
      mjw.step1(m, B)
      mjw.step2(m, B)
      stats["sim_time"] += float(mjm.opt.timestep) * nworld * 2
      sa, sb = core.snapshot(m, A), core.snapshot(m, B)
      if scen.capacity_overflow(sa) or scen.capacity_overflow(sb):
        stats["skipped"]["capacity_overflow"] = stats["skipped"].get("capacity_overflow", 0) + 1
        break
      stats["evaluations"] += 1
      if int(sa["nefc"].max()) > 0:
        stats["nontrivial"].append("L1|" + key)
      bad = _cmp_tol(sa, sb, stats)
      if bad:
        viols.append({"class": {"oracle": "step_equals_step1_step2", "law": "L1", "field": bad[0][0], "integrator": integ},
                      "detail": {"step": k, "fields": [x[0] for x in bad][:10], "first": bad[0][1]}})
        break
      # keep the twins in lock-step: B continues from A's state so that round-off does not accumulate along the history
      core.set_istate(mjm, m, B, core.get_istate(mjm, m, A))
    else:
      stats["skipped"]["rk4_not_in_L1"] = stats["skipped"].get("rk4_not_in_L1", 0) + 1
  stats["sample"] = {"model": sc["model"].get("path", "generated:" + ",".join(sc["model"].get("features", []))[:120]), "opt": sc["model"].get("opt"),
                     "nworld": nworld, "history_ops": len(hist), "K": K}
  seams.set_alloc("NATIVE")
  return {"violations": viols, "stats": stats, "digest": core.digest(core.get_istate(mjm, m, F))}


def shrink(sc):
  mjm, _ = core.make_model(sc["model"])
  base = dict(sc)
  if "ops" not in base:
    base["ops"] = core.random_history(sc["hist_seed"], mjm, sc["nworld"], sc["hist_steps"]) if sc["hist_steps"] else []
  for cand in scen.ddmin_ops(base["ops"]):
    yield dict(base, ops=cand)
  if base["K"] > 1:
    yield dict(base, K=base["K"] - 1)
  if base["alloc"][0] != "ZERO":
    yield dict(base, alloc=["ZERO", 0])
  if base["nworld"] > 1:
    yield dict(base, nworld=1)
