"""C17 - no out-of-bounds access or crash on accepted inputs; invalid configurations are rejected with an exception.

Workers of this check compile every kernel with wp.config.mode = "debug": Warp's array accessors then assert every index
and a failed assertion aborts the process ("Assertion failed: ... array.h").  The supervisor treats a dead worker as a
candidate, regenerates the scenario, replays it alone in a fresh interpreter and minimises it with one interpreter per
candidate.  Scenarios inject what makes indices go wrong: zero / tiny / exact-fit capacities of every kind, iteration and
line-search budgets of 0 and 1, flag combinations (sleeping with and without islands), permuted schedules, poisoned
scratch memory, resets and keyframe resets in the middle of histories.  A table of invalid configurations must raise.
"""

import numpy as np

from .. import core, scen, seams
from .. import rng as _rng

ID = "C17"
LEVEL = "exploration"
BUILD = "dbg"
CRASH_IS_VIOLATION = True
TIERS = {
  "quick": {"runs": 64, "chunk": 4, "budget_s": 540, "timeout_s": 500, "crash_min_tries": 10},
  "thorough": {"runs": 256, "chunk": 4, "budget_s": 1800, "timeout_s": 900, "crash_min_tries": 20},
}
RULE = ("one evaluation = one public op (step, forward, step1, step2, reset_data, reset_data_keyframe, get_data_into, get/set_state) executed "
        "under the bounds-checked debug build on a Data with injected faults, or one invalid-configuration probe that must raise; runs are "
        "generated from (seed, index): model, options and flags, nworld, per-kind capacities drawn from {0, 1, 2, exact fit, one short, "
        "ample}, budgets, schedule, allocator poison; non-trivial = at least one capacity overflow bit or budget bit was actually reported "
        "during the run (a fault fired) or an invalid configuration was probed; distinct = (fault kinds fired, solver/cone/jacobian/"
        "integrator/broadphase, sleeping, islands) tuples")
ASSUMPTIONS = ["Warp's debug assertions cover array indexing a[i,j]; tile loads through raw pointers and native utilities (array_scan, "
               "segmented sort) are trusted", "a worker death is attributed to the last op in its write-ahead log and confirmed by replaying the "
               "scenario alone in a fresh interpreter"]


def gen(seed, idx, tier):
  r = _rng.gen("c17", seed, idx)
  sleep = bool(r.random() < 0.3)
  feats = {}
  if r.random() < 0.3:
    feats["pile"] = True
  if sleep and _rng.gen("c17clique", seed, idx).random() < 0.4:
    # island discovery (sleeping only) over a densely coupled group of trees: its scratch stack sees many more pushes than trees
    feats.update({"eq_clique": True, "pile": True, "tiny": False, "free": True})
  spec, rejected = scen.pick_model(seed, idx, features=feats, size="s", curated_p=0.0 if feats.get("eq_clique") else 0.25)
  if sleep:
    spec["opt"]["sleep"] = True
    spec["opt"]["sleep_tolerance"] = float(r.choice([0.02, 0.5]))
  if r.random() < 0.3:
    spec["opt"]["iterations"] = int(r.choice([0, 1, 2]))
  if r.random() < 0.3:
    spec["opt"]["ls_iterations"] = int(r.choice([0, 1, 3]))
  if r.random() < 0.15:
    spec["opt"]["ccd_iterations"] = int(r.choice([0, 1, 2]))
  capk = {}
  for kind in ("naconmax", "njmax", "njmax_nnz", "nvmax", "naccdmax"):
    capk[kind] = str(r.choice(["ample", "ample", "zero", "one", "two", "exact", "short", "half", "pad16", "pad16", "rand"]))
  return {
    "property": ID, "seed": seed, "idx": idx, "model": spec, "nworld": int(r.choice([1, 2, 3])), "rejected_models": rejected,
    "init": {"seed": int(r.integers(1 << 30)), "pos_noise": 0.15, "vel_noise": 1.0, "act_noise": 0.3},
    "hist_seed": int(r.integers(1 << 30)), "steps": int(r.integers(3, 25)), "cap_kinds": capk,
    "sched": str(r.choice(["ASC", "ASC", "DESC", "PERM", "STRIDE"])), "sched_key": int(r.integers(1 << 40)),
    "alloc": [str(r.choice(["POISON", "GARBAGE", "ZERO"])), int(r.integers(1 << 30))],
    "api_probes": bool(r.random() < 0.3),
  }  # fmt: skip


def _cap(kind, mode, need, nv, salt=0):
  if mode == "ample":
    return None
  # pad16: the largest multiple of 16 below the need (several buffers are padded to tile multiples: a block of rows that straddles a
  # capacity which is itself a tile multiple has no zeroed padding behind it); rand: any value in [1, need]
  base = {"zero": 0, "one": 1, "two": 2, "exact": need, "short": max(0, need - 1), "half": need // 2,
          "pad16": (max(0, need - 1) // 16) * 16, "rand": 1 + (salt % max(1, need))}[mode]
  if kind == "nvmax":
    base = min(base, nv)
  return int(base)


def run(sc):
  import mujoco
  import warp as wp

  import mujoco_warp as mjw

  mjm, m = core.make_model(sc["model"])
  nworld = sc["nworld"]
  stats = {"evaluations": 0, "nontrivial": [], "faults": {}, "skipped": {}, "sim_time": 0.0, "sets": {}}
  faults = stats["faults"]

  def fault(k, n=1):
    faults[k] = faults.get(k, 0) + n

  sleeping = core.sleep_enabled(m)
  viols = []
  # ---- need from an ample dry run
  ample = scen.ample_caps(mjm, nworld)
  seams.set_alloc("ZERO")
  T = core.make_data(mjm, m, {"nworld": nworld, "how": "make", "caps": ample, "init": sc["init"]})
  need = {"naconmax": 0, "njmax": 0, "njmax_nnz": 0, "nvmax": mjm.nv, "naccdmax": 0}
  for _ in range(min(sc["steps"], 6)):
    mjw.step(m, T)
    need["naconmax"] = max(need["naconmax"], int(T.nacon.numpy()[0]), int(T.ncollision.numpy()[0]))
    need["njmax"] = max(need["njmax"], int(T.nefc.numpy().max()))
  need["naccdmax"] = need["naconmax"]
  need["njmax_nnz"] = need["njmax"] * 2
  caps = {}
  for kind, mode in sc["cap_kinds"].items():
    c = _cap(kind, mode, need[kind], mjm.nv, salt=int(_rng.mix(sc["hist_seed"], kind) % 100003))
    if c is not None:
      caps[kind] = c
  if "naccdmax" in caps and "naconmax" in caps:
    caps["naccdmax"] = min(caps["naccdmax"], caps["naconmax"])
  elif "naccdmax" in caps:
    caps["naccdmax"] = min(caps["naccdmax"], ample["naconmax"])
  full = dict(ample, **caps)
  if "njmax_nnz" not in sc["cap_kinds"] or sc["cap_kinds"]["njmax_nnz"] == "ample":
    full.pop("njmax_nnz", None)
  seams.set_alloc(*sc["alloc"])
  try:
    D = core.make_data(mjm, m, {"nworld": nworld, "how": "make", "caps": full, "init": sc["init"]})
  except ValueError as e:
    stats["skipped"]["make_data_rejects_capacities"] = 1
    stats["sample"] = {"caps": full, "rejected": str(e)[:120]}
    return {"violations": [], "stats": stats}
  cx = core.Ctx(mjm, m, D)
  pol = seams.policy_from_spec({"default": [sc["sched"], sc["sched_key"]]}) if sc["sched"] != "ASC" else None
  ops = sc.get("ops")
  if ops is None:
    ops = core.random_history(sc["hist_seed"], mjm, nworld, sc["steps"], p_reset=0.15)
    r = _rng.gen("c17ops", sc["hist_seed"])
    extra = []
    for o in ops:
      extra.append(o)
      if o[0] == "step" and r.random() < 0.25:
        extra.append([str(r.choice(["forward", "step1", "step2", "getdata", "state", "reset_key"]))])
    ops = extra
  bits_seen = 0
  for o in ops:
    stats["evaluations"] += 1
    seams.set_policy(pol)
    try:
      if o[0] == "getdata":
        mjd = mujoco.MjData(mjm)
        mjw.get_data_into(mjd, mjm, D, int(_rng.mix(sc["hist_seed"], stats["evaluations"]) % nworld))
      elif o[0] == "state":
        S = core.get_istate(mjm, m, D)
        core.set_istate(mjm, m, D, S)
      elif o[0] == "reset_key":
        if mjm.nkey:
          mjw.reset_data_keyframe(m, D, wp.array(np.arange(nworld, dtype=np.int32) % (mjm.nkey + 1) - 0, dtype=int))
      else:
        core.apply_op(cx, o)
        if o[0] == "step":
          stats["sim_time"] += float(mjm.opt.timestep) * nworld * (o[1] if len(o) > 1 else 1)
    except (ValueError, NotImplementedError, RuntimeError) as e:
      # a Python exception is a legitimate rejection, never a crash
      stats["skipped"]["op_raised_" + type(e).__name__] = stats["skipped"].get("op_raised_" + type(e).__name__, 0) + 1
    except (ZeroDivisionError, IndexError, KeyError, TypeError, AttributeError, AssertionError, OverflowError) as e:
      # make_data accepted this Data: a public op that then dies with an arithmetic / indexing / type error has not "rejected an
      # invalid configuration", it has failed half-way through a step (same family as a crash, but survivable and replayable in-process)
      import re
      import traceback

      where = [ln for ln in traceback.format_exc().splitlines() if "mujoco_warp/_src/" in ln]
      site = re.sub(r".*/mujoco_warp/_src/", "", where[-1]).split(",")[0].strip('" ') if where else "?"
      viols.append({"class": {"oracle": "op_fails_on_accepted_data", "exception": type(e).__name__, "op": o[0], "site": site},
                    "detail": {"message": str(e)[:300], "caps": full, "op": o}})
      break
    finally:
      seams.set_policy(None)
    bits_seen |= int(np.bitwise_or.reduce(D.overflow.numpy()))
  names = {1: "NEFC", 2: "NJMAX_NNZ", 4: "BROADPHASE", 8: "NARROWPHASE", 16: "CCD", 32: "HFIELD", 64: "CONTACT_MATCH", 128: "NVMAX", 256: "EPA", 512: "ITER", 1024: "LS"}
  fired = sorted(n for b, n in names.items() if bits_seen & b)
  for n in fired:
    fault("overflow_bit_" + n)
  if sc["sched"] != "ASC":
    fault("schedule_" + sc["sched"])
  fault("alloc_" + sc["alloc"][0])
  if fired:
    stats["nontrivial"].append(f"{'+'.join(fired)}|{scen.opt_key(sc['model'])}|sleep{int(sleeping)}|{sc['sched']}")
  # ---- invalid configurations must raise
  if sc.get("api_probes"):
    probes = [
      ("nconmax<0", lambda: mjw.make_data(mjm, nconmax=-1)),
      ("njmax<0", lambda: mjw.make_data(mjm, njmax=-1)),
      ("nworld=0", lambda: mjw.make_data(mjm, nworld=0)),
      ("nvmax>nv", lambda: mjw.make_data(mjm, nvmax=mjm.nv + 1)),
      ("nvmax<0", lambda: mjw.make_data(mjm, nvmax=-1)),
      ("naccdmax>naconmax", lambda: mjw.make_data(mjm, naconmax=4, naccdmax=5)),
      ("reset_mask_shape", lambda: mjw.reset_data(m, D, wp.zeros(nworld + 1, dtype=bool))),
      ("reset_mask_dtype", lambda: mjw.reset_data(m, D, wp.zeros(nworld, dtype=float))),
      ("key_scalar_out_of_range", lambda: mjw.reset_data_keyframe(m, D, mjm.nkey)),
      ("key_negative", lambda: mjw.reset_data_keyframe(m, D, -1)),
      ("state_sig_too_large", lambda: mjw.get_state(m, D, wp.zeros((nworld, 4), dtype=float), 1 << 14)),
      ("batch_size_not_batchable", lambda: mjw.put_model(mjm, batch_sizes={"nq": 2})),
      ("batch_size_zero", lambda: mjw.put_model(mjm, batch_sizes={"body_mass": 0})),
    ]
    for name, fn in probes:
      stats["evaluations"] += 1
      stats["nontrivial"].append("invalid|" + name)
      try:
        fn()
        viols.append({"class": {"oracle": "invalid_configuration_rejected", "probe": name}, "detail": {"probe": name}})
      except Exception:
        fault("invalid_config_rejected")
  stats["sample"] = {"model": sc["model"].get("path", "generated:" + ",".join(sc["model"].get("features", []))[:120]), "opt": sc["model"].get("opt"),
                     "nworld": nworld, "caps": full, "ops": len(ops), "sched": sc["sched"], "alloc": sc["alloc"][0], "bits_seen": fired}
  seams.set_alloc("NATIVE")
  return {"violations": viols, "stats": stats}


def shrink(sc):
  mjm, _ = core.make_model(sc["model"])
  base = dict(sc)
  if "ops" not in base:
    ops = core.random_history(sc["hist_seed"], mjm, sc["nworld"], sc["steps"], p_reset=0.15)
    base["ops"] = ops
    yield dict(base)
  for cand in list(scen.ddmin_ops(base["ops"]))[:12]:
    yield dict(base, ops=cand)
  for kind, mode in base["cap_kinds"].items():
    if mode != "ample":
      yield dict(base, cap_kinds=dict(base["cap_kinds"], **{kind: "ample"}))
  if base["sched"] != "ASC":
    yield dict(base, sched="ASC")
  if base["alloc"][0] != "ZERO":
    yield dict(base, alloc=["ZERO", 0])
  if base["nworld"] > 1:
    yield dict(base, nworld=1)
