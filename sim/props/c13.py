"""C13 - reset_data restores a fresh Data for the selected worlds and leaves the other worlds untouched.

Twin batches A and B live through the same history; reset_data(m, A, mask) is called on A only ("restart node w").
F is a freshly created Data of the same sizes.
  selected world w  : durable state (incl. act[0:na], history), sleep state == F's, and the following K-step trajectory
                      under identical inputs is bit-equal to F's world w;
  unselected world u: durable state and reported contacts are bit-unchanged by the call, and the following trajectory
                      is bit-equal to world u of the un-reset twin B.
"""

import numpy as np

from .. import core, scen, seams
from .. import rng as _rng

ID = "C13"
LEVEL = "exploration"
TIERS = {
  "quick": {"runs": 96, "chunk": 6, "budget_s": 420, "timeout_s": 300},
  "thorough": {"runs": 384, "chunk": 8, "budget_s": 1500, "timeout_s": 300},
}
RULE = ("one evaluation = one (world, oracle clause) comparison after a reset_data call placed at a seeded point of a seeded "
        "multi-world history; masks cover None / all / none / singletons / world-0-only / all-but-0 / random, bool and int dtypes, "
        "fresh and re-used mask buffers; models are generated with na>nu, delays, mocap, equalities, userdata, sleeping as swarm "
        "features; non-trivial = the reset world's pre-reset durable state differed from a fresh one and the model had at least one "
        "of (activations, history buffers, contacts, equalities, mocap, userdata); distinct = (mask kind, dtype, feature set, "
        "solver/cone/jacobian/integrator, sleeping) tuples")
ASSUMPTIONS = ["content independence of worlds under the ascending schedule (C09a) is used to compare a reset world with the same world of a "
               "fresh batch whose other worlds differ", "comparisons of following trajectories stop at the first capacity overflow"]


def _accept(mjm):
  return True


def gen(seed, idx, tier):
  r = _rng.gen("c13", seed, idx)
  feats = {}
  # bias towards the state components the statement names
  if r.random() < 0.5:
    feats.update({"act": True, "act_user": True})
  if r.random() < 0.4:
    feats.update({"act": True, "act_delay": True, "sensors": True, "sensor_delay": True})
  if r.random() < 0.4:
    feats["mocap"] = True
  if r.random() < 0.4:
    feats.update({"eq_connect": True, "eq_joint": True})
  if r.random() < 0.4:
    feats["userdata"] = True
  if r.random() < 0.3:
    feats.update({"eq_many": True, "tiny": bool(r.random() < 0.7)})
  sleep = bool(r.random() < 0.25)
  spec, rejected = scen.pick_model(seed, idx, features=feats, curated_p=0.15)
  # The reference of this check is the same world inside a batch whose other worlds differ. Under the sweep-and-prune broadphase the
  # position of one world's candidate pairs in the strided work list - and with it the listing order of its contacts and the round-off of
  # everything summed over them - depends on how many candidates the other worlds have (DESIGN 7, C09a): a bit-exact twin comparison is
  # only sound under the N x N broadphase, so that is what this check uses (SAP is exercised by C09, C11, C12, C16, C17).
  if spec.get("mopt"):
    spec["mopt"].pop("broadphase", None)
  if sleep:
    spec["opt"]["sleep"] = True
    spec["opt"]["sleep_tolerance"] = 0.05
  nworld = int(r.choice([2, 3, 3, 4]))
  kind = str(r.choice(["none_arg", "all", "none", "single", "world0", "allbut0", "random"]))
  if kind == "none_arg":
    mask = None
  elif kind == "all":
    mask = [True] * nworld
  elif kind == "none":
    mask = [False] * nworld
  elif kind == "single":
    w = int(r.integers(0, nworld))
    mask = [i == w for i in range(nworld)]
  elif kind == "world0":
    mask = [i == 0 for i in range(nworld)]
  elif kind == "allbut0":
    mask = [i != 0 for i in range(nworld)]
  else:
    mask = [bool(r.random() < 0.5) for _ in range(nworld)]
  return {
    "property": ID, "seed": seed, "idx": idx, "model": spec, "nworld": nworld, "rejected_models": rejected,
    "init": {"seed": int(r.integers(1 << 30)), "pos_noise": 0.15, "vel_noise": 0.8, "act_noise": 0.5, "key": None},
    "hist_seed": int(r.integers(1 << 30)), "hist_steps": int(r.integers(2, 40)),
    "mask": mask, "mask_kind": kind, "mask_dtype": str(r.choice(["bool", "int"])),
    "prior_reset": bool(r.random() < 0.3),  # an earlier reset with another mask through the same buffer
    "K": int(r.integers(2, 8)), "after_seed": int(r.integers(1 << 30)),
    "alloc": [str(r.choice(["ZERO", "POISON", "GARBAGE"])), int(r.integers(1 << 30))],
  }  # fmt: skip


def _mask_array(mask, dtype):
  import warp as wp

  if dtype == "bool":
    return wp.array(np.asarray(mask, dtype=bool), dtype=bool)
  return wp.array(np.asarray(mask, dtype=np.int32) * 3, dtype=int)


def _prelude(mjm, nworld, seed):
  """Make every durable component differ from its fresh value before the history starts."""
  r = _rng.gen("c13pre", seed)
  ops = []
  if mjm.na:
    ops.append(["act", -1, [0.3, -0.2, 0.5, 0.1]])
  for w in range(nworld):
    for e in range(mjm.neq):
      if r.random() < 0.5:
        ops.append(["eq", w, e, bool(not mjm.eq_active0[e])])
    if mjm.nuserdata:
      ops.append(["userdata", w, [round(float(x), 3) for x in r.normal(0, 1, mjm.nuserdata)]])
  return ops


def _junk_only(va, vb):
  """True if world 0's contact list after the call is its old list plus all-zero entries (in listing order)."""
  d0, d1 = va["contact.dist"], vb["contact.dist"]
  g1 = vb["contact.geom"]
  keep = ~((vb["contact.dim"] == 0) & (g1[:, 0] == 0) & (g1[:, 1] == 0))
  return bool(keep.sum() == d0.shape[0] and np.array_equal(d1[keep], d0))


def run(sc):
  import mujoco_warp as mjw

  mjm, m = core.make_model(sc["model"])
  nworld, K = sc["nworld"], sc["K"]
  stats = {"evaluations": 0, "nontrivial": [], "faults": {}, "skipped": {}, "sim_time": 0.0, "sets": {}}
  faults = stats["faults"]

  def fault(k, n=1):
    faults[k] = faults.get(k, 0) + n

  caps = scen.ample_caps(mjm, nworld)
  seams.set_alloc(*sc["alloc"])
  mk = lambda init: core.make_data(mjm, m, {"nworld": nworld, "how": "make", "caps": caps, "init": init})
  A, B = mk(sc["init"]), mk(sc["init"])
  F = mk(None)
  ca, cb, cf = core.Ctx(mjm, m, A), core.Ctx(mjm, m, B), core.Ctx(mjm, m, F)
  hist = sc.get("ops")
  if hist is None:
    hist = core.random_history(sc["hist_seed"], mjm, nworld, sc["hist_steps"])
    hist = _prelude(mjm, nworld, sc["hist_seed"]) + hist
  for op in hist:
    core.apply_op(ca, op)
    core.apply_op(cb, op)
  viols = []
  if scen.capacity_overflow(A):
    stats["skipped"]["overflow_in_history"] = 1
    return {"violations": [], "stats": stats}
  mask = sc["mask"]
  sel = [True] * nworld if mask is None else [bool(x) for x in mask]
  # ---- the reset (A only)
  pre = core.snapshot(m, A)
  pre_state = core.get_istate(mjm, m, A)
  if mask is None:
    mjw.reset_data(m, A)
    fault("reset_none_arg")
  else:
    buf = _mask_array([not x for x in mask] if sc.get("prior_reset") else mask, sc["mask_dtype"])
    if sc.get("prior_reset"):
      # an earlier reset of the complementary worlds on a scratch Data through the same buffer, then the buffer is updated in place
      G = mk(sc["init"])
      mjw.reset_data(m, G, buf)
      buf.numpy()[:] = np.asarray(mask, dtype=bool) if sc["mask_dtype"] == "bool" else np.asarray(mask, dtype=np.int32) * 3
      fault("mask_buffer_reused")
    mjw.reset_data(m, A, buf)
    fault("reset_masked_" + sc["mask_dtype"])
  post = core.snapshot(m, A)
  post_state = core.get_istate(mjm, m, A)
  fresh_state = core.get_istate(mjm, m, F)
  fresh = core.snapshot(m, F)
  feat = []
  if mjm.na:
    feat.append("na>nu" if mjm.na > mjm.nu else "act")
  if mjm.nhistory:
    feat.append("history")
  if mjm.nmocap:
    feat.append("mocap")
  if mjm.neq:
    feat.append("eq")
  if mjm.nuserdata:
    feat.append("userdata")
  if pre["nacon"]:
    feat.append("contacts")
  sleeping = core.sleep_enabled(m)
  key = f"{sc['mask_kind']}|{sc['mask_dtype']}|{'+'.join(feat)}|{scen.opt_key(sc['model'])}|sleep{int(sleeping)}"

  def viol(oracle, field, role, detail):
    viols.append({"class": {"oracle": oracle, "field": field, "world_role": role}, "detail": detail})

  # state layout for readable field names
  import mujoco

  comps = []
  off = 0
  for bit in range(int(mujoco.mjtState.mjNSTATE)):
    n = mujoco.mj_stateSize(mjm, 1 << bit)
    comps.append((mujoco.mjtState(1 << bit).name.replace("mjSTATE_", "").lower(), off, off + n))
    off += n

  def state_diff(x, y):
    for name, a, b in comps:
      if not core.bits_equal(x[a:b], y[a:b]):
        i = int(np.argwhere(~((x[a:b] == y[a:b]) | (np.isnan(x[a:b]) & np.isnan(y[a:b]))))[0][0])
        return name, {"index": i, "size": b - a, "got": float(x[a + i]), "want": float(y[a + i])}
    return None

  resync = []
  for w in range(nworld):
    stats["evaluations"] += 1
    if sel[w]:
      if not core.bits_equal(pre_state[w], fresh_state[w]) and feat:
        stats["nontrivial"].append(key)
      dd = state_diff(post_state[w], fresh_state[w])
      if dd:
        extra = ""
        if dd[0] == "act" and dd[1]["index"] >= mjm.nu:
          extra = ">=nu"
        viol("reset_fresh_state", dd[0] + extra, "selected", dict(dd[1], world=w, mask=mask, nu=int(mjm.nu), na=int(mjm.na)))
        resync.append(w)
      if sleeping and not core.bits_equal(post["tree_asleep"][w], fresh["tree_asleep"][w]):
        viol("reset_fresh_state", "tree_asleep", "selected", {"world": w})
    else:
      dd = state_diff(post_state[w], pre_state[w])
      if dd:
        viol("reset_untouched_state", dd[0], "unselected", dict(dd[1], world=w, mask=mask))
      va, vb = core.world_view(pre, w, efc=False), core.world_view(post, w, efc=False)
      cd = [k for k, _ in core.diff_views(va, vb) if k.startswith("contact.")]
      if cd:
        nb, na_ = int(va["contact.count"][0]), int(vb["contact.count"][0])
        if na_ == 0 and nb > 0 and sel[0]:
          kind = "all_vanish_when_world0_is_reset"
        elif w == 0 and na_ > nb and core.bits_equal(va["contact.dist"], vb["contact.dist"][:nb] if False else va["contact.dist"]) and _junk_only(va, vb):
          kind = "world0_gains_zeroed_entries_of_reset_worlds"
        else:
          kind = "other"
        viols.append({"class": {"oracle": "reset_untouched_contacts", "kind": kind, "world_role": "unselected"},
                      "detail": {"world": w, "mask": mask, "contacts_before": nb, "contacts_after": na_, "first_field": cd[0]}})
  # ---- following trajectories (after re-synchronising durable components already reported as not reset)
  if resync:
    act = np.zeros(nworld, dtype=bool)
    act[resync] = True
    core.set_istate(mjm, m, A, fresh_state, active=act)
    fault("resync_after_reported_state_difference", len(resync))
  if True:
    after = [core.random_history(_rng.mix(sc["after_seed"], k), mjm, nworld, 1)[:-1] for k in range(K)]
    ok = True
    k = 0
    while ok and k < K:
      for op in after[k]:
        for cx in (ca, cb, cf):
          core.apply_op(cx, op)
      if sc.get("_debug_at") == k:  # in-process debugging aid for replays: hand out the twin Data objects right before step k+1
        return {"_debug": (mjm, m, A, B, F), "violations": [], "stats": stats}
      for d in (A, B, F):
        mjw.step(m, d)
      stats["sim_time"] += float(mjm.opt.timestep) * nworld * 3
      sa, sb, sf = core.snapshot(m, A), core.snapshot(m, B), core.snapshot(m, F)
      if any(scen.capacity_overflow(x) for x in (sa, sb, sf)):
        stats["skipped"]["capacity_overflow"] = stats["skipped"].get("capacity_overflow", 0) + 1
        break
      for w in range(nworld):
        stats["evaluations"] += 1
        va = core.world_view(sa, w)
        vr = core.world_view(sf if sel[w] else sb, w)
        dd = core.diff_views(va, vr)
        if dd:
          viol("reset_following_trajectory", dd[0][0], "selected" if sel[w] else "unselected",
               {"world": w, "step": k + 1, "mask": mask, "fields": [x[0] for x in dd][:10], "first": dd[0][1]})
          ok = False
          break
      k += 1
  stats["sample"] = {"model": sc["model"].get("path", "generated:" + ",".join(sc["model"].get("features", []))[:120]), "opt": sc["model"].get("opt"),
                     "nworld": nworld, "mask": mask, "mask_dtype": sc["mask_dtype"], "history_ops": len(hist), "K": K,
                     "sizes": {"nu": int(mjm.nu), "na": int(mjm.na), "nhistory": int(mjm.nhistory), "neq": int(mjm.neq), "nmocap": int(mjm.nmocap)}}
  seams.set_alloc("NATIVE")
  return {"violations": viols, "stats": stats, "digest": core.digest(post_state)}


def shrink(sc):
  mjm, _ = core.make_model(sc["model"])
  base = dict(sc)
  if "ops" not in base:
    hist = core.random_history(sc["hist_seed"], mjm, sc["nworld"], sc["hist_steps"])
    base["ops"] = _prelude(mjm, sc["nworld"], sc["hist_seed"]) + hist
  for cand in scen.ddmin_ops(base["ops"]):
    yield dict(base, ops=cand)
  if base["K"] > 1:
    yield dict(base, K=1)
  if base.get("prior_reset"):
    yield dict(base, prior_reset=False)
  if base["alloc"][0] != "ZERO":
    yield dict(base, alloc=["ZERO", 0])
  if base["mask_dtype"] != "bool":
    yield dict(base, mask_dtype="bool")
