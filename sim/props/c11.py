"""C11 - results are independent of the order in which the tasks ("threads") of each kernel launch execute.

At a probe state S (taken along a seeded history) two Data objects with the same scrambled past receive S and execute one
public op (step / forward): X under the shipped ascending order, Y under a schedule chosen by the simulator (DESC, STRIDE,
BLOCK, PERM per launch; all launches, one pipeline stage, or a few kernels), with wp.empty filled with poison.
Oracle (DESIGN 7, C11): no poison in Y where X is clean; counts equal exactly; contacts and constraint rows equal as keyed
multisets; every other output and the next integration state equal up to round-off of re-associated sums.
Guards: capacity overflow in either run (precondition of C11); iteration / line-search limit hit (unconverged iterates are
legitimately order sensitive -> only pre-solver fields are compared).
"""

import numpy as np

from .. import core, scen, seams
from .. import rng as _rng

ID = "C11"
LEVEL = "exploration"
TIERS = {
  "quick": {"runs": 128, "chunk": 8, "budget_s": 480, "timeout_s": 300},
  "thorough": {"runs": 512, "chunk": 8, "budget_s": 1800, "timeout_s": 300},
}
RULE = ("one evaluation = one op (step or forward) executed under a non-ascending schedule and compared with its ascending twin from the same "
        "state; runs are generated from (seed, index): model, options, nworld 1..4, probe points of a seeded history, schedule mode in {DESC, "
        "STRIDE, BLOCK, PERM(per-launch keys)}, scope in {all launches, one kernel family, 1-3 named kernels}, allocator pattern, capacities "
        "ample or exact-fit; non-trivial = >=1 launch with >=2 tasks ran non-ascending AND the listing order of contacts or rows differed from "
        "the ascending run (the schedule observably changed the execution); distinct = (schedule mode, scope, "
        "solver/cone/jacobian/integrator/broadphase, sleeping) tuples; kernels permuted while order-observable are listed under distinct.kernels")
ASSUMPTIONS = ["serial orders of whole tasks only: a task runs to completion before the next starts, so lost updates inside a non-atomic "
               "read-modify-write are out of reach", "tolerance: |x-y| <= 1e-5 + rtol*max|ref| with rtol 1e-4 (positions, Jacobians, contact geometry) "
               "and 5e-3 (velocity/force/acceleration level, next state)", "comparisons are skipped when either run reports a capacity overflow; "
               "solver-dependent fields are skipped when either run hit the iteration or line-search limit"]

FAMILIES = {
  "smooth": ["_kinematics", "_subtree", "_cinert", "_cdof", "_crb", "_comvel", "_cacc", "_cfrc", "_qLD", "_factor", "_cholesky", "_rne", "_M"],
  "collision": ["broadphase", "narrowphase", "ccd", "_sap", "contact", "_hfield", "flex"],
  "constraint": ["_efc", "_equality", "_friction", "_limit", "_zero_constraint"],
  "solver": ["_solve", "_update", "_linesearch", "mul_m", "_qfrc_constraint"],
  "island_sleep": ["island", "sleep", "wake", "awake", "_flood", "_tree", "_compact"],
  "sensor": ["sensor", "_energy", "tactile", "_apply", "history"],
}
PRE_SOLVER_SKIP = {"qacc", "qfrc_constraint", "efc.force", "efc.state", "qacc_warmstart", "qvel", "qpos", "act", "cacc", "cfrc_int", "cfrc_ext",
                   "sensordata", "act_dot", "history", "energy", "time"}
EXACT_INT = {"ne", "nf", "nl", "nefc", "nisland", "contact.count", "contact.dim", "contact.geom", "contact.type", "contact.geomcollisionid",
             "efc.type", "efc.id", "eq_active"}
ALWAYS_SKIP = {"solver_niter", "overflow", "efc.state", "efc.D", "tree_asleep", "tree_awake", "body_awake", "tree_island", "ntree_awake",
               "nbody_awake", "nv_awake", "ten_wrapadr", "ten_wrapnum", "moment_rownnz", "moment_rowadr", "moment_colind"}
LAST_KERNELS = []


def gen(seed, idx, tier):
  r = _rng.gen("c11", seed, idx)
  sleep = bool(r.random() < 0.2)
  big = bool(r.random() < 0.12)  # many DOFs: kernels that split a row or a tree level over several tasks only do so above size thresholds
  if big:
    spec, rejected = scen.pick_model(seed, idx, features={"pile": True, "tiny": False, "plane": True, "sleep": False}, size=str(r.choice(["m", "l"])), curated_p=0.0)
    spec["opt"]["jacobian"] = str(r.choice(["dense", "dense", "sparse"]))
    if spec["opt"]["jacobian"] == "dense":
      # put_model documents a limit on nv for dense Jacobians: the override above must stay inside the accepted input space
      try:
        core.make_model(spec)
      except ValueError:
        spec["opt"]["jacobian"] = "sparse"
    sleep = False
  else:
    spec, rejected = scen.pick_model(seed, idx, size="s" if r.random() < 0.6 else "m", curated_p=0.25)
  if sleep:
    spec["opt"]["sleep"] = True
    spec["opt"]["sleep_tolerance"] = float(r.choice([0.02, 0.3]))
  mode = str(r.choice(["DESC", "STRIDE", "BLOCK", "PERM", "PERM", "PERM"]))
  scope = str(r.choice(["all", "all", "family", "kernels"]))
  sched = {"default": [mode, int(r.integers(1 << 40))]}
  if scope == "family":
    fam = str(r.choice(sorted(FAMILIES)))
    sched["only"] = FAMILIES[fam]
    sched["family"] = fam
  elif scope == "kernels":
    sched["pick_kernels"] = int(r.integers(1, 4))
    sched["pick_seed"] = int(r.integers(1 << 30))
  ro = _rng.gen("c11op", seed, idx)  # separate stream (added later): the other draws of a run are unchanged
  op_override = None
  if ro.random() < 0.2:
    op_override = str(ro.choice(["step12", "reset", "reset_key"]))
  return {
    "op_override": op_override,
    "property": ID, "seed": seed, "idx": idx, "model": spec, "nworld": int(r.choice([1, 2, 3, 4])), "rejected_models": rejected,
    "init": {"seed": int(r.integers(1 << 30)), "pos_noise": 0.12, "vel_noise": 0.8, "act_noise": 0.3},
    "scramble": {"seed": int(r.integers(1 << 30)), "pos_noise": 0.5, "vel_noise": 3.0, "act_noise": 1.0},
    "hist_seed": int(r.integers(1 << 30)), "probes": int(r.integers(1, 3)) if big else int(r.integers(2, 7)), "gap": int(r.integers(1, 9)), "big": big,
    "sched": sched, "scope": scope, "op": str(r.choice(["step", "step", "step", "forward"])),
    "alloc": [str(r.choice(["POISON", "POISON", "GARBAGE", "ZERO"])), int(r.integers(1 << 30))],
    "caps": str(r.choice(["ample", "ample", "exact"])),
  }  # fmt: skip


def _policy(sc, kernels_seen):
  spec = dict(sc["sched"])
  if "pick_kernels" in spec and "only" not in spec:
    r = _rng.gen("pick", spec["pick_seed"])
    ks = sorted(kernels_seen)
    n = min(len(ks), spec["pick_kernels"])
    spec["only"] = [ks[i] for i in r.choice(len(ks), size=n, replace=False)] if n else []
  return seams.policy_from_spec(spec), spec.get("only")


def run(sc):
  global LAST_KERNELS
  import mujoco_warp as mjw

  mjm, m = core.make_model(sc["model"])
  nworld = sc["nworld"]
  stats = {"evaluations": 0, "nontrivial": [], "faults": {}, "skipped": {}, "sim_time": 0.0, "sets": {}}
  faults = stats["faults"]

  def fault(k, n=1):
    faults[k] = faults.get(k, 0) + n

  sleeping = core.sleep_enabled(m)
  ample = scen.ample_caps(mjm, nworld)
  seams.set_alloc("ZERO")
  R = core.make_data(mjm, m, {"nworld": nworld, "how": "make", "caps": ample, "init": sc["init"]})
  cr = core.Ctx(mjm, m, R)
  op = sc.get("op_override") or sc["op"]
  if op == "reset_key" and not mjm.nkey:
    op = "reset"
  if op == "step12" and int(mjm.opt.integrator) == 1:
    op = "step"  # step1/step2 are defined for the Euler and implicit integrators only
  if op == "step" and int(mjm.opt.integrator) == 1:  # mjINT_RK4
    # RK4 re-evaluates forward() at states built from the solver output of the previous stage: round-off of a re-ordered sum is
    # amplified across stages through contact activation (observed: contact.frame 2.5e-3 apart after permuting two kernels).
    # The single-evaluation op is compared instead; the RK4 combination kernels are element-wise.
    op = "forward"
    fault("rk4_step_replaced_by_forward")
  import warp as wp

  def do(d):
    if op == "step":
      mjw.step(m, d)
    elif op == "forward":
      mjw.forward(m, d)
    elif op == "step12":
      mjw.step1(m, d)
      mjw.step2(m, d)
    elif op == "reset":
      # the reset kernels run under the schedule as well: every second world (world 0 unselected, so that the listed
      # contacts-of-world-0 finding of C13 is not involved), then a step so that what the reset left behind is consumed
      mjw.reset_data(m, d, wp.array(np.arange(nworld) % 2 == 1, dtype=bool))
      mjw.forward(m, d)
    elif op == "reset_key":
      mjw.reset_data_keyframe(m, d, wp.array((np.arange(nworld, dtype=np.int32) % (mjm.nkey + 1)) - 1, dtype=int))
      mjw.forward(m, d)
    else:
      raise ValueError(op)
  viols = []
  mode = sc["sched"]["default"][0]
  kernels_perm = set()
  for p in range(sc["probes"]):
    for o in sc.get("ops_" + str(p)) or core.random_history(_rng.mix(sc["hist_seed"], p), mjm, nworld, sc["gap"]):
      core.apply_op(cr, o)
    S = core.get_istate(mjm, m, R)
    if not np.all(np.isfinite(S)):
      stats["skipped"]["nonfinite_state"] = stats["skipped"].get("nonfinite_state", 0) + 1
      break
    if float(np.max(np.abs(S[:, 1 : 1 + mjm.nq + mjm.nv]))) > 1e3:
      # a world that has flown apart (positions / velocities beyond 1e3): round-off of a re-ordered sum is amplified without bound there,
      # nothing about thread order is learned from it
      stats["skipped"]["diverged_state"] = stats["skipped"].get("diverged_state", 0) + 1
      break
    caps = ample
    if sc["caps"] == "exact":
      # measure the need of this very op on a scratch copy, then give X and Y exactly that much
      T = core.make_data(mjm, m, {"nworld": nworld, "how": "make", "caps": ample})
      core.set_istate(mjm, m, T, S)
      do(T)
      if not scen.capacity_overflow(T):
        caps = {"naconmax": max(1, int(T.nacon.numpy()[0]), int(T.ncollision.numpy()[0])), "njmax": max(1, int(T.nefc.numpy().max()))}
        fault("exact_fit_capacities")
    seams.set_alloc("ZERO")
    X = core.make_data(mjm, m, {"nworld": nworld, "how": "make", "caps": caps, "init": sc["scramble"]})
    seams.set_alloc(*sc["alloc"])
    Y = core.make_data(mjm, m, {"nworld": nworld, "how": "make", "caps": caps, "init": sc["scramble"]})
    seams.set_alloc("ZERO")
    for d in (X, Y):
      for _ in range(2):
        mjw.step(m, d)
      core.set_istate(mjm, m, d, S)
      core.clear_overflow(d)
    # ---- X: ascending (records the kernels that run)
    seams.S.log = []
    seams.reset_counters()
    do(X)
    seen = sorted({k for _, k, dim, _, _ in seams.S.log if int(np.prod(dim)) >= 2})
    seams.S.log = None
    LAST_KERNELS = seen
    # ---- Y: scheduled
    pol, only = _policy(sc, seen)
    seams.set_alloc(*sc["alloc"])
    seams.set_policy(pol)
    seams.S.log = []
    seams.reset_counters()
    do(Y)
    permuted = seams.S.permuted
    perm_kernels = sorted({k for _, k, dim, md, _ in seams.S.log if md != 0})
    seams.S.log = None
    seams.set_policy(None)
    seams.set_alloc("ZERO")
    fault("launches_" + mode, permuted)
    fault("alloc_" + sc["alloc"][0])
    stats["sim_time"] += float(mjm.opt.timestep) * nworld * 2
    sx, sy = core.snapshot(m, X), core.snapshot(m, Y)
    if scen.capacity_overflow(sx) or scen.capacity_overflow(sy):
      stats["skipped"]["capacity_overflow"] = stats["skipped"].get("capacity_overflow", 0) + 1
      if scen.capacity_overflow(sx) != scen.capacity_overflow(sy):
        # an overflow that exists under one order only means order-dependent allocation at exact fit: precondition fails, not a verdict
        fault("overflow_under_one_order_only")
      continue
    if permuted == 0:
      stats["skipped"]["nothing_permuted"] = stats["skipped"].get("nothing_permuted", 0) + 1
      continue
    stats["evaluations"] += 1
    lim = (int(sx["overflow"].max()) | int(sy["overflow"].max())) & (core.OV_ITER | core.OV_LS)
    if lim:
      stats["skipped"]["solver_budget_hit_solver_fields_skipped"] = stats["skipped"].get("solver_budget_hit_solver_fields_skipped", 0) + 1
    order_changed = False
    for w in range(nworld):
      rx, ry = core.world_view(sx, w), core.world_view(sy, w)
      if not (core.bits_equal(rx["contact.geom"], ry["contact.geom"]) and core.bits_equal(rx["efc.id"], ry["efc.id"]) and core.bits_equal(rx["efc.type"], ry["efc.type"])):
        order_changed = True
      vx, vy = core.canon_view(sx, w), core.canon_view(sy, w)
      skip = set(ALWAYS_SKIP)
      if lim:
        skip |= PRE_SOLVER_SKIP
      if sleeping:
        # asleep/awake pattern must agree exactly
        if not np.array_equal(rx["tree_asleep"] >= 0, ry["tree_asleep"] >= 0):
          viols.append({"class": {"oracle": "schedule_invariance", "kind": "asleep_pattern", "field": "tree_asleep", "mode": mode},
                        "detail": {"probe": p, "world": w, "kernels": only or "all", "asc": rx["tree_asleep"].tolist(), "sched": ry["tree_asleep"].tolist()}})
          break
      bad = core.tol_diff(vy, vx, core.STATE_LEVEL, skip=skip, exact_int=EXACT_INT, stats=stats, tag="sched")
      if bad:
        f, info = bad[0]
        kind = "poison_or_nonfinite" if info and info.get("nonfinite") else "count_or_id" if f in EXACT_INT else "shape" if info and "shape" in info else "value"
        viols.append({"class": {"oracle": "schedule_invariance", "kind": kind, "field": f, "mode": mode, "config": f"sleep{int(sleeping)}+caps_{sc['caps']}"},
                      "detail": {"probe": p, "world": w, "kernels": only or "all", "fields": [x[0] for x in bad][:12], "first": info, "permuted_launches": permuted}})
        break
    if order_changed:
      stats["nontrivial"].append(f"{mode}|{sc['scope']}{'/' + sc['sched'].get('family', '') if sc['scope'] == 'family' else ''}|{scen.opt_key(sc['model'])}|sleep{int(sleeping)}|{sc['caps']}|{op}")
      kernels_perm.update(perm_kernels)
    stats["sets"].setdefault("kernels_permuted", []).extend(perm_kernels)
    if viols:
      break
  stats["sets"].setdefault("kernels_permuted_while_order_observable", []).extend(sorted(kernels_perm))
  stats["sample"] = {"model": sc["model"].get("path", "generated:" + ",".join(sc["model"].get("features", []))[:120]), "opt": sc["model"].get("opt"),
                     "nworld": nworld, "sched": sc["sched"], "scope": sc["scope"], "op": op, "alloc": sc["alloc"][0], "caps": sc["caps"], "probes": sc["probes"]}
  return {"violations": viols, "stats": stats, "digest": core.digest(core.get_istate(mjm, m, R))}


def shrink(sc):
  """Minimise towards: one probe, few ops, one named kernel, the simplest schedule mode."""
  base = dict(sc)
  mjm, _ = core.make_model(sc["model"])
  if base["probes"] > 1:
    # materialise histories so that earlier probes can be dropped while keeping the state of the failing one
    hist = []
    for p in range(base["probes"]):
      hist += base.get("ops_" + str(p)) or core.random_history(_rng.mix(sc["hist_seed"], p), mjm, sc["nworld"], sc["gap"])
    one = {k: v for k, v in base.items() if not k.startswith("ops_")}
    yield dict(one, probes=1, ops_0=hist)
  if base["probes"] == 1 and base.get("ops_0"):
    for cand in scen.ddmin_ops(base["ops_0"]):
      yield dict(base, ops_0=cand)
  sched = dict(base["sched"])
  only = sched.get("only")
  if only is None:
    only = list(LAST_KERNELS)
  if len(only) > 1:
    h = len(only) // 2
    for part in (only[:h], only[h:]):
      s2 = {k: v for k, v in sched.items() if k not in ("pick_kernels", "pick_seed", "family")}
      yield dict(base, sched=dict(s2, only=part), scope="kernels")
    if len(only) <= 8:
      for i in range(len(only)):
        s2 = {k: v for k, v in sched.items() if k not in ("pick_kernels", "pick_seed", "family")}
        yield dict(base, sched=dict(s2, only=only[:i] + only[i + 1 :]), scope="kernels")
  if sched["default"][0] != "DESC":
    yield dict(base, sched=dict(sched, default=["DESC", 0]))
  if base["alloc"][0] != "ZERO":
    yield dict(base, alloc=["ZERO", 0])
  if base["caps"] != "ample":
    yield dict(base, caps="ample")
  if base["nworld"] > 1:
    yield dict(base, nworld=base["nworld"] - 1)
