"""C36 - results do not depend on what else ran in the process (process history as the schedule).

A target scenario T (model, options, batch, seeded inputs, K steps) is executed
  (1) alone in a fresh interpreter                          -> per-step digests D1
  (2) after a seeded sequence of 1-5 polluter scenarios in the same interpreter -> D2
Polluters differ from T in exactly the things that key process-global caches: cone, solver, Jacobian layout, geom-type sets,
NATIVECCD / MULTICCD flags, warn_overflow, sleeping, broadphase type and filter, batch sizes of batched fields, DOF and row
shape classes, nworld, capacities, and they also call reset_data / keyframe resets.
Oracle: D1 == D2 bit for bit (digest over every live per-world field, listed contacts and rows, after every step).
Each run of this check uses its own interpreter (chunk size 1), so (2) starts from a clean process as well.
"""

import json
import os
import subprocess
import sys
import tempfile

import numpy as np

from .. import core, models, scen, seams
from .. import rng as _rng

ID = "C36"
LEVEL = "exploration"
TIERS = {
  "quick": {"runs": 48, "chunk": 1, "budget_s": 480, "timeout_s": 500},
  "thorough": {"runs": 192, "chunk": 1, "budget_s": 1800, "timeout_s": 600},
}
RULE = ("one evaluation = one target program executed after a polluter sequence and compared (per-step digests) with the same target in a fresh "
        "interpreter; polluter sequences (1-5 programs) are drawn from (seed, index) so that they differ from the target in cache-keying "
        "dimensions; non-trivial = at least one polluter shared kernels with the target but differed in a cache-keying option (cone, solver, "
        "jacobian, NATIVECCD/MULTICCD, broadphase, sleeping, batch sizes, nworld, geom-type set); distinct = (sorted set of differing "
        "dimensions, target solver/cone/jacobian/integrator) tuples")
ASSUMPTIONS = ["both executions use zero-filled scratch (allocator seam ZERO) and the ascending schedule", "the reference interpreter is started by "
               "the worker itself (python -m sim.ref36 <scenario>), same environment and kernel cache"]


# float-valued per-world model fields that matter to collision and dynamics (perturbed multiplicatively as in C10)
BATCHABLE = ["geom_margin", "geom_gap", "geom_rbound", "geom_aabb", "geom_friction", "geom_size", "geom_solref", "body_mass", "body_inertia", "dof_damping",
             "dof_armature", "jnt_stiffness", "geom_pos", "body_pos"]


def _prog(seed, tag, features=None, force=None, curated_p=0.3):
  r = _rng.gen("prog", seed, tag)
  spec, _ = scen.pick_model(seed, _rng.mix(tag) % (1 << 30), features=features, size="s", curated_p=curated_p)
  if force:
    spec["opt"].update(force.get("opt", {}))
    if "mopt" in force:
      spec["mopt"] = dict(spec.get("mopt") or {}, **force["mopt"])
  return {"model": spec, "nworld": int(r.choice([1, 2, 3])), "init": {"seed": int(r.integers(1 << 30)), "pos_noise": 0.15, "vel_noise": 0.8},
          "hist_seed": int(r.integers(1 << 30)), "K": int(r.integers(3, 12))}


def gen(seed, idx, tier):
  r = _rng.gen("c36", seed, idx)
  feats = {"boxes": True, "plane": True, "dense_contacts": True}
  target = _prog(seed, f"T{idx}", features=feats)
  rb = _rng.gen("c36batch", seed, idx)  # separate stream (added later): the other draws of a run are unchanged
  if rb.random() < 0.35:
    # the target itself holds per-world model parameters (different values in every world): kernels and generated functions that are
    # specialised on batch sizes are then exercised with sizes that differ from the polluters'
    nw = int(rb.choice([2, 3, 3, 4]))
    names = [str(k) for k in rb.choice(BATCHABLE, size=int(rb.integers(1, 4)), replace=False)]
    target = dict(target, nworld=nw, batch={k: (nw if rb.random() < 0.7 else 1) for k in names}, batch_factor_seed=int(rb.integers(1 << 30)))
  pol = []
  dims = []
  for j in range(int(r.integers(1, 6))):
    kind = str(r.choice(["nativeccd_off", "other_cone", "other_solver", "other_jacobian", "sleep", "broadphase", "same_model_other_nworld",
                         "batched_fields", "warn_overflow_off", "random", "multiccd_off", "tiny_caps", "same_model_flag_toggle",
                         "same_model_flag_toggle", "same_model_other_batch", "same_model_other_option", "same_shape_other_joints"]))
    if j == 0:
      # the first polluter is chosen to collide with the target where process-global state has been under-keyed before: the same model with
      # the collision-dispatch flags flipped, and (for a target with per-world parameters) the same fields batched for fewer worlds
      rf = _rng.gen("c36first", seed, idx).random()
      if target.get("batch") and rf < 0.6:
        kind = "same_model_fewer_worlds_batched"
      elif rf < 0.35:
        kind = "same_model_ccd_flag_toggle"
    dims.append(kind)
    t_opt = target["model"]["opt"]
    if kind == "same_model_ccd_flag_toggle":
      flip = int(_rng.gen("c36flip", seed, idx).choice([131072, 131072, 524288, 131072 | 524288]))  # NATIVECCD, MULTICCD
      p = dict(target, model=dict(target["model"], opt=dict(t_opt, disableflags=int(t_opt.get("disableflags", 0)) ^ flip)))
    elif kind == "same_model_fewer_worlds_batched":
      nw = int(_rng.gen("c36nw", seed, idx).integers(1, max(2, target["nworld"])))
      p = dict(target, nworld=nw, batch={k: nw for k in target["batch"]}, batch_factor_seed=int(r.integers(1 << 30)), init=dict(target["init"], seed=int(r.integers(1 << 30))))
    elif kind == "nativeccd_off":
      p = _prog(seed, f"P{idx}.{j}", features={"boxes": True, "plane": True, "dense_contacts": True, "margin": False}, force={"opt": {"disableflags": 131072}}, curated_p=0.0)
    elif kind == "multiccd_off":
      p = _prog(seed, f"P{idx}.{j}", features=feats, force={"opt": {"disableflags": 524288}}, curated_p=0.0)
    elif kind == "same_model_flag_toggle":
      # the target itself with one or two disable/enable bits flipped: what an under-keyed cache cannot tell apart from the target
      bits = [131072, 524288, 1024, 4096, 32768, 512, 8, 4, 32, 64, 2, 256]  # NATIVECCD MULTICCD FILTERPARENT REFSAFE EULERDAMP WARMSTART LIMIT FRICTIONLOSS SPRING DAMPER EQUALITY CLAMPCTRL
      flip = 0
      for b in r.choice(bits, size=int(r.integers(1, 3)), replace=False):
        flip |= int(b)
      o2 = dict(t_opt, disableflags=int(t_opt.get("disableflags", 0)) ^ flip)
      if r.random() < 0.3:
        o2["enableflags"] = int(t_opt.get("enableflags", 0)) ^ 2  # ENERGY
      p = dict(target, model=dict(target["model"], opt=o2))
    elif kind == "same_model_other_option":
      o2 = dict(t_opt)
      which = str(r.choice(["integrator", "timestep", "impratio", "iterations", "tolerance", "ccd_iterations"]))
      o2[which] = {"integrator": str(r.choice(["euler", "implicitfast", "implicit", "rk4"])), "timestep": float(r.choice([0.001, 0.003, 0.008])), "impratio": float(r.choice([1.0, 3.0, 10.0])),
                   "iterations": int(r.choice([1, 3, 30])), "tolerance": float(r.choice([1e-3, 1e-6])), "ccd_iterations": int(r.choice([2, 12, 50]))}[which]
      p = dict(target, model=dict(target["model"], opt=o2))
    elif kind == "same_shape_other_joints":
      # same (nworld, nbody, nv, ngeom) but another joint structure: every free joint becomes three slides + three hinges (and the
      # integrator is taken over from the target): scratch buffers cached by shape see the same shape with other rows written
      xml = target["model"].get("xml")
      if xml and "<freejoint" in xml:
        import re

        def six(mm):
          n = mm.group(1)
          return "".join(f'<joint name="{n}_s{a}" type="slide" axis="{ax}"/>' for a, ax in enumerate(["1 0 0", "0 1 0", "0 0 1"])) + \
                 "".join(f'<joint name="{n}_h{a}" type="hinge" axis="{ax}"/>' for a, ax in enumerate(["1 0 0", "0 1 0", "0 0 1"]))

        xml2 = re.sub(r'<freejoint name="([^"]+)"/>', six, xml)
        xml2 = re.sub(r"\s*<keyframe>.*?</keyframe>", "", xml2, flags=re.S)  # keyframes are sized by nq, which changes
        xml2 = re.sub(r'\s*<(jointpos|jointvel) joint="j\d+_0"[^>]*/>', "", xml2)
        p = dict(target, model=dict(target["model"], xml=xml2))
      else:
        p = _prog(seed, f"P{idx}.{j}")
    elif kind == "same_model_other_batch":
      # same model and the same fields batched, but for another number of worlds (usually fewer), with its own per-world values
      nw = int(r.choice([1, 2, 2, 4]))
      bf = target.get("batch") or {str(k): 0 for k in r.choice(BATCHABLE, size=2, replace=False)}
      p = dict(target, nworld=nw, batch={k: nw for k in bf}, batch_factor_seed=int(r.integers(1 << 30)), init=dict(target["init"], seed=int(r.integers(1 << 30))))
    elif kind == "other_cone":
      p = dict(target, model=dict(target["model"], opt=dict(t_opt, cone="elliptic" if t_opt.get("cone") == "pyramidal" else "pyramidal")))
    elif kind == "other_solver":
      p = dict(target, model=dict(target["model"], opt=dict(t_opt, solver="cg" if t_opt.get("solver") == "newton" else "newton")))
    elif kind == "other_jacobian":
      p = dict(target, model=dict(target["model"], opt=dict(t_opt, jacobian="sparse" if t_opt.get("jacobian") == "dense" else "dense")))
    elif kind == "sleep":
      p = dict(target, model=dict(target["model"], opt=dict(t_opt, sleep=True, sleep_tolerance=0.1, solver="newton")))
    elif kind == "broadphase":
      p = dict(target, model=dict(target["model"], mopt={"broadphase": int(r.integers(1, 3)), "broadphase_filter": int(r.integers(0, 16))}))
    elif kind == "same_model_other_nworld":
      p = dict(target, nworld=int(target["nworld"] % 3 + 1), init=dict(target["init"], seed=int(r.integers(1 << 30))))
    elif kind == "batched_fields":
      p = dict(target, batch={"body_mass": 2, "geom_friction": 2, "dof_damping": 2}, nworld=2, batch_factor_seed=int(r.integers(1 << 30)))
    elif kind == "warn_overflow_off":
      p = dict(target, model=dict(target["model"], mopt=dict(target["model"].get("mopt") or {}, warn_overflow=False)), caps={"naconmax": 2, "njmax": 3})
    elif kind == "tiny_caps":
      p = dict(target, caps={"naconmax": int(r.integers(0, 4)), "njmax": int(r.integers(0, 6))})
    else:
      p = _prog(seed, f"P{idx}.{j}")
    p = dict(p, kind=kind, resets=bool(r.random() < 0.3))
    pol.append(p)
  return {"property": ID, "seed": seed, "idx": idx, "target": target, "polluters": pol, "dims": sorted(set(dims))}


def _execute(prog, digests=True):
  """Run one program in this interpreter; returns per-step digests."""
  import warp as wp

  import mujoco_warp as mjw

  if "geom_margin" in (prog.get("batch") or {}) and prog.get("batch_factor_seed") is not None:
    # margins made non-zero below must stay inside put_model's input space (it refuses margins on CCD pairs with MULTICCD enabled)
    o = prog["model"].get("opt") or {}
    prog = dict(prog, model=dict(prog["model"], opt=dict(o, disableflags=int(o.get("disableflags", 0)) | 524288)))
  try:
    mjm, m = core.make_model(prog["model"], batch_sizes=prog.get("batch"))
  except (NotImplementedError, ValueError):
    return None
  if prog.get("batch") and prog.get("batch_factor_seed") is not None:
    from . import c10

    for name, b in sorted(prog["batch"].items()):
      arr = c10._apply(m, "model." + name, c10._factors({"factor_seed": prog["batch_factor_seed"]}, "model." + name, b))
      if name == "geom_margin":
        # margins are zero in most models (a factor leaves them zero): world k additionally gets k+1 millimetres
        v = arr.numpy()
        for k in range(v.shape[0]):
          v[k] += np.float32(0.004 * (k + 1))
  nworld = prog["nworld"]
  caps = prog.get("caps") or scen.ample_caps(mjm, nworld)
  try:
    d = core.make_data(mjm, m, {"nworld": nworld, "how": "make", "caps": caps, "init": prog["init"]})
  except ValueError:
    return None
  cx = core.Ctx(mjm, m, d)
  out = []
  for k in range(prog["K"]):
    for op in core.random_history(_rng.mix(prog["hist_seed"], k), mjm, nworld, 1)[:-1]:
      core.apply_op(cx, op)
    mjw.step(m, d)
    if prog.get("resets") and k == prog["K"] // 2:
      mjw.reset_data(m, d, wp.array(np.arange(nworld) % 2 == 0, dtype=bool))
      if mjm.nkey:
        mjw.reset_data_keyframe(m, d, 0)
    if digests:
      out.append(core.digest(core.snapshot(m, d)))
  return out


def run(sc):
  stats = {"evaluations": 0, "nontrivial": [], "faults": {}, "skipped": {}, "sim_time": 0.0, "sets": {}}
  seams.set_alloc("ZERO")
  # ---- (2) polluters, then target, in this interpreter
  ran = 0
  for p in sc["polluters"]:
    r = _execute(p, digests=False)
    if r is not None:
      ran += 1
      stats["faults"]["polluter_" + p["kind"]] = stats["faults"].get("polluter_" + p["kind"], 0) + 1
  d2 = _execute(sc["target"])
  if d2 is None:
    stats["skipped"]["target_rejected"] = 1
    return {"violations": [], "stats": stats}
  # ---- (1) the same target alone in a fresh interpreter
  here = os.path.dirname(os.path.dirname(os.path.dirname(os.path.abspath(__file__))))
  with tempfile.NamedTemporaryFile("w", suffix=".json", dir=os.environ.get("VERIF_CACHE", os.path.join(here, ".cache")), delete=False) as f:
    json.dump(sc["target"], f, default=core._jsd)
    path = f.name
  try:
    env = dict(os.environ)
    env["PYTHONPATH"] = here + os.pathsep + env.get("PYTHONPATH", "")
    pr = subprocess.run([sys.executable, "-m", "sim.ref36", path], cwd=here, env=env, capture_output=True, text=True, timeout=450)
  finally:
    os.remove(path)
  line = [ln for ln in pr.stdout.splitlines() if ln.startswith("DIGESTS ")]
  if pr.returncode != 0 or not line:
    raise RuntimeError("reference interpreter failed: " + (pr.stderr or pr.stdout)[-800:])
  d1 = json.loads(line[-1][8:])
  stats["evaluations"] += 1
  if ran:
    stats["nontrivial"].append("+".join(sc["dims"]) + "|" + scen.opt_key(sc["target"]["model"]))
  viols = []
  if d1 != d2:
    first = next((i for i, (a, b) in enumerate(zip(d1, d2)) if a != b), min(len(d1), len(d2)))
    viols.append({"class": {"oracle": "process_history_digest"}, "detail": {"first_differing_step": first + 1, "polluters": [p["kind"] for p in sc["polluters"]],
                                                                         "fresh": d1[first : first + 1], "after_polluters": d2[first : first + 1]}})
  stats["sample"] = {"target": sc["target"]["model"].get("path", "generated"), "target_opt": sc["target"]["model"]["opt"], "polluters": [p["kind"] for p in sc["polluters"]], "polluters_accepted": ran}
  return {"violations": viols, "stats": stats, "digest": d2[-1] if d2 else ""}


def shrink(sc):
  pol = sc["polluters"]
  if len(pol) > 1:
    for i in range(len(pol)):
      yield dict(sc, polluters=pol[:i] + pol[i + 1 :])
  for i, p in enumerate(pol):
    if p["K"] > 1:
      yield dict(sc, polluters=pol[:i] + [dict(p, K=1)] + pol[i + 1 :])
    if p.get("resets"):
      yield dict(sc, polluters=pol[:i] + [dict(p, resets=False)] + pol[i + 1 :])
  if sc["target"]["K"] > 1:
    yield dict(sc, target=dict(sc["target"], K=max(1, sc["target"]["K"] // 2)))
