"""C09 - worlds of a batch do not influence each other.

(a) content independence, bit-exact, multi-step: twin batches A and B of the same size run under the same
    order-preserving schedule (ASC / DESC / STRIDE) and allocator pattern. The target world t holds the same state and
    receives the same inputs in both; every other world differs (state, controls, applied forces, resets mid-run, heavy
    contact that fills the shared contact buffer). World t must stay bit-identical in A and B in every per-world field,
    its listed contacts and rows, its iteration count and overflow bits, as long as neither batch reports an overflow.
(b) batch size / position independence, single step from a synchronised state: world t of the batch vs the same state
    alone (nworld=1). Floats agree up to round-off of re-associated sums (launch geometry depends on nworld), unless a
    solver budget was exhausted.
"""

import numpy as np

from .. import core, scen, seams
from .. import rng as _rng

ID = "C09"
LEVEL = "exploration"
TIERS = {
  "quick": {"runs": 96, "chunk": 6, "budget_s": 420, "timeout_s": 300},
  "thorough": {"runs": 384, "chunk": 8, "budget_s": 1500, "timeout_s": 300},
}
RULE = ("one evaluation = one compared step of the target world (clause a: twin batches with different neighbours, bit-exact; "
        "clause b: batch vs solo / permuted batch, counts exact + floats to tolerance); runs are generated from (seed, index): model, "
        "options, nworld 2..5, target position, schedule in {ASC, DESC, STRIDE}, neighbour disturbances (different states and inputs, "
        "resets, kicks), shared contact buffer sized ample or tight; non-trivial = the target world had >=1 constraint row and at least "
        "one neighbour differed from the twin's neighbour in state; distinct = (solver/cone/jacobian/integrator, schedule, nworld, "
        "contacts bucket, sleeping, neighbour-reset) tuples")
ASSUMPTIONS = ["clause (a) uses only schedules that keep the relative order of one world's tasks (ASC, DESC, STRIDE); under arbitrary permutations "
               "other worlds' pairs shift this world's positions in shared lists and sums re-associate (measured 4e-6), which is not leakage",
               "clause (b) tolerance: |a-b| <= 1e-5 + rtol * max|ref| per field with rtol 2e-3 for the next state and 2e-2 for force-level outputs (largest deviation "
               "seen on the unchanged tree: 8.6e-4 relative on a force-level field); skipped when either run hit the iteration or line-search limit; when a "
               "row count differs (distance within round-off of an activation threshold) only the next state is compared",
               "'exactly' in the statement is read as: no dependence on other worlds' contents (bit-exact), none on batch size/position beyond "
               "float32 re-association"]

TOL_FIELDS = ["qpos", "qvel", "act", "qacc", "qfrc_constraint", "qfrc_smooth", "sensordata", "xpos", "actuator_force", "qfrc_actuator", "qfrc_passive", "energy"]
COUNT_FIELDS = ["ne", "nf", "nl", "nefc"]


def gen(seed, idx, tier):
  r = _rng.gen("c09", seed, idx)
  sleep = bool(r.random() < 0.2)
  spec, rejected = scen.pick_model(seed, idx, size="s" if r.random() < 0.7 else "m", curated_p=0.2)
  sleepy = False
  if sleep:
    sleepy = bool(r.random() < 0.7)
    if sleepy and r.random() < 0.5:
      spec, rejected = scen.pick_model(seed, idx, features={"pile": True, "tiny": False, "plane": True}, size="s", curated_p=0.0)
      if _rng.gen("c09sap", seed, idx).random() < 0.7:
        # sweep-and-prune broadphase over a dense pile: more sweep candidates than launched threads, so that one thread walks the work
        # packages of several worlds (sleeping neighbours first, then the target world)
        spec["mopt"] = dict(spec.get("mopt") or {}, broadphase=int(_rng.gen("c09sap2", seed, idx).choice([1, 2])))
    if sleepy and _rng.gen("c09cur", seed, idx).random() < 0.4:
      # many sweep candidates per world under the SAP broadphase (see models.Gen "curtain"): one broadphase thread then serves work
      # packages of several worlds, the sleeping neighbours' first
      spec, rejected = scen.pick_model(seed, idx, features={"curtain": True, "pile": False, "tiny": False, "plane": True, "free": True}, size="s", curated_p=0.0)
      spec["mopt"] = dict(spec.get("mopt") or {}, broadphase=int(_rng.gen("c09sap3", seed, idx).choice([1, 2])))
    spec["opt"]["sleep"] = True
    spec["opt"]["sleep_tolerance"] = float(r.choice([0.05, 0.3, 1.0])) if sleepy else 0.02
  nworld = int(r.choice([2, 3, 3, 4, 5]))
  return {
    "sleepy": sleepy,
    "property": ID, "seed": seed, "idx": idx, "model": spec, "nworld": nworld, "target": int(r.integers(0, nworld)),
    "rejected_models": rejected,
    "init_t": {"seed": int(r.integers(1 << 30)), "pos_noise": 0.1, "vel_noise": 0.5},
    "init_A": {"seed": int(r.integers(1 << 30)), "pos_noise": 0.3, "vel_noise": 1.5},
    "init_B": {"seed": int(r.integers(1 << 30)), "pos_noise": 0.3, "vel_noise": 1.5},
    "hist_seed": int(r.integers(1 << 30)), "K": int(r.integers(20, 45)) if sleepy else int(r.integers(4, 40)),
    "sched": str(r.choice(["ASC", "ASC", "DESC", "STRIDE"])),
    "alloc": [str(r.choice(["ZERO", "POISON", "GARBAGE"])), int(r.integers(1 << 30))],
    "caps": str(r.choice(["ample", "ample", "shared_tight"])),
    "neighbour_reset": bool(r.random() < 0.3),
    "solo": bool(r.random() < 0.6),
  }  # fmt: skip


def _hist(sc, mjm, nworld, which):
  """Per-step op lists. Target world ops come from one stream; neighbours from a stream that depends on `which`."""
  t = sc["target"]
  out = []
  for k in range(sc["K"]):
    ops = []
    for w in range(nworld):
      src = ("t", 0) if w == t else (which, w)
      if w != t and which == "A" and sc.get("sleepy"):
        continue  # A's neighbours are left alone so that they fall asleep
      seg = core.random_history(_rng.mix(sc["hist_seed"], src[0], src[1], k), mjm, 1, 1)[:-1]
      for op in seg:
        op = list(op)
        op[1] = w
        ops.append(op)
      if w != t and sc.get("neighbour_reset") and which == "A" and _rng.gen("nr", sc["hist_seed"], w, k).random() < 0.08:
        ops.append(["reset", [i == w for i in range(nworld)]])
    out.append(ops)
  return out


def run(sc):
  import mujoco_warp as mjw

  mjm, m = core.make_model(sc["model"])
  nworld, t, K = sc["nworld"], sc["target"], sc["K"]
  stats = {"evaluations": 0, "nontrivial": [], "faults": {}, "skipped": {}, "sim_time": 0.0, "sets": {}}
  faults = stats["faults"]

  def fault(k, n=1):
    faults[k] = faults.get(k, 0) + n

  caps = scen.ample_caps(mjm, nworld)
  seams.set_alloc(*sc["alloc"])
  mk = lambda nw, cp: core.make_data(mjm, m, {"nworld": nw, "how": "make", "caps": cp})
  # initial states: target identical, neighbours differ between A and B
  st_t = core.initial_states(mjm, 1, sc["init_t"])[0]
  st_A = core.initial_states(mjm, nworld, sc["init_A"])
  st_B = core.initial_states(mjm, nworld, sc["init_B"])

  def load(d, sts):
    qp, qv, ac = d.qpos.numpy(), d.qvel.numpy(), d.act.numpy()
    for w, (a, b, c) in enumerate(sts):
      qp[w], qv[w] = a, b
      if mjm.na:
        ac[w] = c

  if sc.get("sleepy"):
    # A's neighbours start from a resting configuration (pre-rolled alone until every tree sleeps) and receive no inputs
    D = mk(1, scen.ample_caps(mjm, 1))
    load(D, [st_t])
    for _ in range(40):
      for _ in range(10):
        mjw.step(m, D)
      if np.all(D.tree_asleep.numpy() >= 0):
        break
    rest = (D.qpos.numpy()[0].copy(), D.qvel.numpy()[0].copy() * 0, D.act.numpy()[0].copy())
    if np.all(np.isfinite(rest[0])):
      st_A = [rest for _ in range(nworld)]
      fault("neighbours_start_at_rest")
  if sc["caps"] == "shared_tight":
    # size the shared contact buffer from a dry run of A, so that neighbours come close to filling it
    D = mk(nworld, caps)
    load(D, [st_t if w == t else st_A[w] for w in range(nworld)])
    need = scen.measure_need(mjm, m, D, steps=min(K, 10))
    if not scen.capacity_overflow(D):
      caps = dict(caps, naconmax=max(need["nacon"] + 1, 1))
      fault("shared_contact_buffer_tight")
  A, B = mk(nworld, caps), mk(nworld, caps)
  load(A, [st_t if w == t else st_A[w] for w in range(nworld)])
  load(B, [st_t if w == t else st_B[w] for w in range(nworld)])
  ca, cb = core.Ctx(mjm, m, A), core.Ctx(mjm, m, B)
  hA, hB = _hist(sc, mjm, nworld, "A"), _hist(sc, mjm, nworld, "B")
  pol = seams.policy_from_spec({"default": [sc["sched"], 0]})
  viols = []
  sleeping = core.sleep_enabled(m)
  exact_mode = int(m.opt.broadphase) == 0
  S1 = None
  if sc.get("solo"):
    S1 = mk(1, scen.ample_caps(mjm, 1))
  ok = True
  k = 0
  while ok and k < K:
    for op in hA[k]:
      core.apply_op(ca, op)
    for op in hB[k]:
      core.apply_op(cb, op)
    pre_state = core.get_istate(mjm, m, A)[t : t + 1].copy()
    pre_asleep = A.tree_asleep.numpy()[t].copy() if sleeping else None
    seams.set_policy(pol)
    seams.reset_counters()
    mjw.step(m, A)
    seams.reset_counters()
    mjw.step(m, B)
    perm = seams.S.permuted
    seams.set_policy(None)
    if sc["sched"] != "ASC":
      fault("launches_" + sc["sched"], perm)
    stats["sim_time"] += float(mjm.opt.timestep) * nworld * 2
    sa, sb = core.snapshot(m, A), core.snapshot(m, B)
    if scen.capacity_overflow(sa) or scen.capacity_overflow(sb):
      stats["skipped"]["capacity_overflow"] = stats["skipped"].get("capacity_overflow", 0) + 1
      fault("overflow_reported")
      break
    va, vb = core.world_view(sa, t), core.world_view(sb, t)
    stats["evaluations"] += 1
    if sleeping:
      na = int(sum(np.all(sa["tree_asleep"][w] >= 0) for w in range(nworld) if w != t))
      if na:
        fault("steps_with_fully_asleep_neighbour")
    differs = any(not core.bits_equal(sa["qpos"][w], sb["qpos"][w]) for w in range(nworld) if w != t)
    if int(va["nefc"]) > 0 and differs:
      stats["nontrivial"].append(f"a|{scen.opt_key(sc['model'])}|{sc['sched']}|nw{nworld}|con{scen.bucket(va['contact.count'][0])}|sleep{int(sleeping)}|nr{int(bool(sc.get('neighbour_reset')))}|{sc['caps']}")
    if exact_mode:
      dd = core.diff_views(va, vb)
      if dd:
        viols.append({"class": {"oracle": "content_independence_bit_exact", "field": dd[0][0], "sched": sc["sched"]},
                      "detail": {"step": k + 1, "target": t, "fields": [x[0] for x in dd][:10], "first": dd[0][1], "nworld": nworld}})
        ok = False
        break
    else:
      # sweep-and-prune broadphase: the position of this world's pairs in the strided work list depends on how many candidates
      # the other worlds have, so its contacts can be listed in another order -> keyed-multiset comparison with round-off
      # tolerance, one step at a time (B's target is re-synchronised from A afterwards)
      ca_, cb_ = core.canon_view(sa, t), core.canon_view(sb, t)
      lim = (int(va["overflow"]) | int(vb["overflow"])) & (core.OV_ITER | core.OV_LS)
      skip = {"solver_niter", "overflow", "efc.state", "efc.D", "tree_asleep", "tree_awake", "body_awake", "tree_island", "ntree_awake", "nbody_awake", "nv_awake"}
      if lim:
        skip |= {"qacc", "qfrc_constraint", "efc.force", "qacc_warmstart", "qvel", "qpos", "act", "cacc", "cfrc_int", "cfrc_ext", "sensordata", "act_dot", "history", "energy"}
        stats["skipped"]["solver_budget_hit"] = stats["skipped"].get("solver_budget_hit", 0) + 1
      bad = core.tol_diff(ca_, cb_, core.STATE_LEVEL, skip=skip, exact_int={"ne", "nf", "nl", "nefc", "contact.count", "contact.geom", "efc.type", "efc.id"}, stats=stats, tag="sap")
      stats["sets"].setdefault("sap_bit_identical", []).append(str(not core.diff_views(va, vb)))
      if bad:
        viols.append({"class": {"oracle": "content_independence_sap_tolerance", "field": bad[0][0], "sched": sc["sched"]},
                      "detail": {"step": k + 1, "target": t, "fields": [x[0] for x in bad][:10], "first": bad[0][1], "nworld": nworld}})
        ok = False
        break
      act = np.zeros(nworld, dtype=bool)
      act[t] = True
      core.set_istate(mjm, m, B, core.get_istate(mjm, m, A), active=act)
      if sleeping:
        B.tree_asleep.numpy()[t] = A.tree_asleep.numpy()[t]
    # ---- clause (b): the same step alone
    if S1 is not None and (not sleeping) and k % 3 == 0:
      core.set_istate(mjm, m, S1, pre_state)
      core.clear_overflow(S1)
      mjw.step(m, S1)
      s1 = core.snapshot(m, S1)
      v1 = core.world_view(s1, 0)
      lim = (int(va["overflow"]) | int(v1["overflow"])) & (core.OV_ITER | core.OV_LS)
      if scen.capacity_overflow(s1):
        stats["skipped"]["solo_overflow"] = stats["skipped"].get("solo_overflow", 0) + 1
      else:
        stats["evaluations"] += 1
        bad = None
        # a row count may legitimately differ when a distance sits within round-off of its activation threshold (the two runs
        # differ by re-association, and RK4 reports the counts of its last sub-stage): then only the next state is compared
        flip = any(int(np.ravel(va[f])[0]) != int(np.ravel(v1[f])[0]) for f in COUNT_FIELDS + ["contact.count"])
        if flip:
          stats["skipped"]["count_differs_force_fields_skipped"] = stats["skipped"].get("count_differs_force_fields_skipped", 0) + 1
        if lim:
          stats["skipped"]["solver_budget_hit"] = stats["skipped"].get("solver_budget_hit", 0) + 1
        else:
          fields = ["qpos", "qvel", "act"] if flip else TOL_FIELDS
          tb = core.tol_diff(va, v1, {"qpos", "xpos"}, rtol_state=2e-3, rtol_force=2e-2, skip=set(va) - set(fields), stats=stats, tag="solo")
          if tb:
            bad = ("float", tb[0][0], tb[0][1].get("err"), tb[0][1].get("tol"))
          stats["sets"].setdefault("solo_bit_identical", []).append(str(bool(all(core.bits_equal(va[f], v1[f]) for f in ("qpos", "qvel", "qacc")))))
          if int(va["nefc"]) > 0:
            stats["nontrivial"].append(f"b|{scen.opt_key(sc['model'])}|nw{nworld}|pos{t}|nefc{scen.bucket(va['nefc'])}")
        if bad is not None:
          viols.append({"class": {"oracle": "batch_vs_solo", "kind": bad[0], "field": bad[1]},
                        "detail": {"step": k + 1, "target": t, "nworld": nworld, "batch": bad[2], "solo": bad[3]}})
          ok = False
          break
    k += 1
  stats["sample"] = {"model": sc["model"].get("path", "generated:" + ",".join(sc["model"].get("features", []))[:120]), "opt": sc["model"].get("opt"),
                     "nworld": nworld, "target": t, "sched": sc["sched"], "K": K, "caps": caps, "alloc": sc["alloc"][0], "steps_compared": k}
  seams.set_alloc("NATIVE")
  return {"violations": viols, "stats": stats, "digest": core.digest(core.get_istate(mjm, m, A))}


def shrink(sc):
  base = dict(sc)
  if base["K"] > 1:
    yield dict(base, K=max(1, base["K"] // 2))
    yield dict(base, K=base["K"] - 1)
  if base.get("neighbour_reset"):
    yield dict(base, neighbour_reset=False)
  if base["sched"] != "ASC":
    yield dict(base, sched="ASC")
  if base["caps"] != "ample":
    yield dict(base, caps="ample")
  if base["alloc"][0] != "ZERO":
    yield dict(base, alloc=["ZERO", 0])
  if base.get("solo"):
    yield dict(base, solo=False)
  if base["nworld"] > 2:
    nw = base["nworld"] - 1
    yield dict(base, nworld=nw, target=min(base["target"], nw - 1))
