"""C10 - per-world model parameters take effect only in their world.

For 1-3 batchable Model/Option/Statistic fields f (enumerated from types.py: array specs whose first dimension is "*"), the
Model is built with leading batch size b in {nworld, a proper divisor of nworld, 1} and per-world values v[k].  For a target
world i the reference is an unbatched Model whose f holds v[i mod b]; both drive batches of the same size through the same
history.  World i must be bit-identical in the two runs (the other worlds' contents differ; launch geometry is identical).
Liveness: a field counts as covered only if the perturbed value changes world i's trajectory w.r.t. the unperturbed model.
"""

import dataclasses

import numpy as np

from .. import core, scen, seams
from .. import rng as _rng

ID = "C10"
LEVEL = "exploration"
TIERS = {
  "quick": {"runs": 128, "chunk": 8, "budget_s": 480, "timeout_s": 300},
  "thorough": {"runs": 512, "chunk": 8, "budget_s": 1500, "timeout_s": 300},
}
RULE = ("one evaluation = one compared step of the target world between the batched-field model and the unbatched reference model; the "
        "field list is enumerated from the Model/Option/Statistic dataclasses (float-typed '*' fields, render-only and quaternion fields "
        "excluded and listed); per run 1-3 fields are batched together with batch size nworld, a proper divisor, or 1; values are seeded "
        "multiplicative perturbations; non-trivial = the field is live in that scene (the perturbation changes the target world's "
        "trajectory); distinct = distinct live (field, batch-size kind) pairs")
ASSUMPTIONS = ["bit-exact comparison relies on content independence of worlds under the ascending schedule (C09a)",
               "fields are perturbed on the device arrays after put_model: host-side tables derived from them at put_model time are the same in both runs",
               "quaternion-valued and render-only fields (lights, materials, cameras, rgba, texture/mesh ids) are not perturbed"]

EXCLUDE_PREFIX = ("light_", "mat_", "cam_")
EXCLUDE = {"geom_rgba", "geom_matid", "geom_dataid", "body_quat", "body_iquat", "geom_quat", "site_quat", "qpos0", "qpos_spring"}
ADDITIVE = {"geom_margin": 0.05, "jnt_margin": 0.05, "tendon_margin": 0.05, "dof_damping": 0.5, "dof_armature": 0.05, "jnt_stiffness": 5.0,
            "tendon_damping": 0.5, "tendon_stiffness": 5.0}
UNIT_FIELDS = {"jnt_solimp", "dof_solimp", "geom_solimp", "pair_solimp", "eq_solimp", "tendon_solimp_lim", "tendon_solimp_fri"}


def field_list():
  from mujoco_warp._src import types as T

  out = []
  for owner, cls in (("model", T.Model), ("opt", T.Option), ("stat", T.Statistic)):
    for f in dataclasses.fields(cls):
      sh = getattr(f.type, "shape", None)
      if not sh or sh[0] != "*":
        continue
      if f.name in EXCLUDE or f.name.startswith(EXCLUDE_PREFIX):
        continue
      dt = getattr(f.type, "dtype", None)
      if dt in (int, bool) or getattr(dt, "__name__", "") in ("int32", "bool", "bool_"):
        continue
      out.append((owner, f.name))
  return out


def gen(seed, idx, tier):
  r = _rng.gen("c10", seed, idx)
  feats = {"act": True, "limits": True, "springs": True}
  for k in ("tendon_fixed", "tendon_spatial", "eq_connect", "eq_weld", "eq_joint", "frictionloss", "pairs", "margin", "gravcomp", "act_dyn"):
    if r.random() < 0.45:
      feats[k] = True
  fl = field_list()
  # the model is made rich in the family of the field this run is about (first, cyclically chosen field), so that the field is live
  lead = fl[(idx * 3) % len(fl)][1]
  fam = {"actuator_": {"act": True, "act_dyn": True, "act_limits": True}, "tendon_": {"tendon_fixed": True, "tendon_spatial": True, "limits": True, "frictionloss": True},
         "eq_": {"eq_connect": True, "eq_weld": True, "eq_joint": True, "eq_inactive": False}, "pair_": {"pairs": True, "dense_contacts": True, "plane": True},
         "geom_": {"dense_contacts": True, "plane": True, "free": True}, "jnt_": {"limits": True, "springs": True, "margin": True},
         "dof_": {"frictionloss": True, "limits": True}, "body_": {"free": True, "gravcomp": True}}
  for pre, ff in fam.items():
    if lead.startswith(pre):
      feats.update(ff)
  spec, rejected = scen.pick_model(seed, idx, features=feats, curated_p=0.0 if any(lead.startswith(p_) for p_ in fam) else 0.1, size="s")
  # The reference of this check is the same world inside a batch whose other worlds differ. Under the sweep-and-prune broadphase the
  # position of one world's candidate pairs in the strided work list - and with it the listing order of its contacts and the round-off of
  # everything summed over them - depends on how many candidates the other worlds have (DESIGN 7, C09a): a bit-exact twin comparison is
  # only sound under the N x N broadphase, so that is what this check uses (SAP is exercised by C09, C11, C12, C16, C17).
  if spec.get("mopt"):
    spec["mopt"].pop("broadphase", None)
  nf = int(r.choice([1, 1, 2, 3]))
  # cycle deterministically through the field list so that every field is visited regularly, plus random companions
  fields = [fl[(idx * 3 + j) % len(fl)] for j in range(1)] + [fl[int(r.integers(0, len(fl)))] for _ in range(nf - 1)]
  nworld = int(r.choice([2, 3, 4, 4, 6]))
  bs = {}
  for owner, name in fields:
    kind = str(r.choice(["nworld", "nworld", "divisor", "one"]))
    if kind == "divisor":
      divs = [d for d in range(2, nworld) if nworld % d == 0]
      b = int(r.choice(divs)) if divs else nworld
    elif kind == "one":
      b = 1
    else:
      b = nworld
    bs[f"{owner}.{name}"] = b
  return {
    "property": ID, "seed": seed, "idx": idx, "model": spec, "nworld": nworld, "target": int(r.integers(0, nworld)), "rejected_models": rejected,
    "batch": bs, "factor_seed": int(r.integers(1 << 30)),
    "init": {"seed": int(r.integers(1 << 30)), "pos_noise": 0.15, "vel_noise": 0.8, "act_noise": 0.3},
    "hist_seed": int(r.integers(1 << 30)), "K": int(r.integers(3, 15)),
    "alloc": [str(r.choice(["ZERO", "POISON"])), 0],
  }  # fmt: skip


def _factors(sc, name, b):
  r = _rng.gen("fac", sc["factor_seed"], name)
  if name.split(".")[1] in UNIT_FIELDS:
    return [np.float32(1.0 - 0.04 * (k + 1) - 0.02 * r.random()) for k in range(b)]
  return [np.float32(1.0 + (0.12 * (k + 1) + 0.05 * r.random()) * (1 if r.random() < 0.7 else -1)) for k in range(b)]


def _get(m, key):
  owner, name = key.split(".")
  obj = m if owner == "model" else m.opt if owner == "opt" else m.stat
  return obj, name


def _apply(m, key, factors):
  """Replace field by an array with leading dimension len(factors) whose slice k is base * factors[k]."""
  import warp as wp

  obj, name = _get(m, key)
  arr = getattr(obj, name)
  base = arr.numpy()[0:1].copy()
  # fields that are zero in most models (a factor would leave them zero, i.e. dead) additionally get |f-1| * eps; only fields whose
  # zero value is not used by put_model to skip work (margins, damping, armature, stiffness)
  eps = ADDITIVE.get(name, 0.0)
  vals = np.concatenate([(base * f + np.float32(abs(float(f) - 1.0) * eps)).astype(base.dtype) for f in factors], axis=0)
  if arr.shape[0] == len(factors):
    arr.numpy()[...] = vals
    return arr
  new = wp.array(vals, dtype=arr.dtype)
  if hasattr(arr, "_is_batched"):
    new._is_batched = arr._is_batched
  setattr(obj, name, new)
  return new


def run(sc):
  import mujoco_warp as mjw

  nworld, t, K = sc["nworld"], sc["target"], sc["K"]
  stats = {"evaluations": 0, "nontrivial": [], "faults": {}, "skipped": {}, "sim_time": 0.0, "sets": {}}
  model_batch = {k.split(".")[1]: b for k, b in sc["batch"].items() if k.startswith("model.")}
  if "geom_margin" in model_batch:
    # put_model refuses non-zero margins on CCD pairs while MULTICCD is enabled: margins that become non-zero by the additive
    # perturbation must stay inside the accepted input space, so multi-contact CCD is switched off for these runs
    sc = dict(sc, model=dict(sc["model"], opt=dict(sc["model"]["opt"], disableflags=int(sc["model"]["opt"].get("disableflags", 0)) | 524288)))
  mjm, mb = core.make_model(sc["model"], batch_sizes=model_batch)  # batched fields
  _, mr = core.make_model(sc["model"])  # reference: unbatched, target world's values
  _, m0 = core.make_model(sc["model"])  # unperturbed (liveness)
  facs = {}
  for key, b in sc["batch"].items():
    f = _factors(sc, key, b)
    facs[key] = f
    arr = _apply(mb, key, f)
    if arr.shape[0] != b:
      raise RuntimeError(f"batched field {key} has leading dim {arr.shape[0]}, expected {b}")
    _apply(mr, key, [f[t % b]])
  caps = scen.ample_caps(mjm, nworld)
  seams.set_alloc(*sc["alloc"])
  mk = lambda m: core.make_data(mjm, m, {"nworld": nworld, "how": "make", "caps": caps, "init": sc["init"]})
  Db, Dr, D0 = mk(mb), mk(mr), mk(m0)
  cxs = [core.Ctx(mjm, mb, Db), core.Ctx(mjm, mr, Dr), core.Ctx(mjm, m0, D0)]
  viols = []
  live = False
  k = 0
  while k < K:
    for op in core.random_history(_rng.mix(sc["hist_seed"], k), mjm, nworld, 1)[:-1]:
      for cx in cxs:
        core.apply_op(cx, op)
    for cx in cxs:
      mjw.step(cx.m, cx.d)
    stats["sim_time"] += float(mjm.opt.timestep) * nworld * 3
    sb, sr, s0 = core.snapshot(mb, Db), core.snapshot(mr, Dr), core.snapshot(m0, D0)
    if scen.capacity_overflow(sb) or scen.capacity_overflow(sr):
      stats["skipped"]["capacity_overflow"] = stats["skipped"].get("capacity_overflow", 0) + 1
      break
    vb, vr, v0 = core.world_view(sb, t), core.world_view(sr, t), core.world_view(s0, t)
    stats["evaluations"] += 1
    if not live and core.diff_views(vr, v0):
      live = True
    dd = core.diff_views(vb, vr)
    if dd:
      viols.append({"class": {"oracle": "batched_field_vs_unbatched_reference", "fields_batched": sorted(sc["batch"]), "field": dd[0][0]},
                    "detail": {"step": k + 1, "target": t, "batch": sc["batch"], "fields": [x[0] for x in dd][:10], "first": dd[0][1]}})
      break
    k += 1
  for key, b in sc["batch"].items():
    kind = "nworld" if b == nworld else "one" if b == 1 else "divisor"
    stats["sets"].setdefault("fields_exercised", []).append(key)
    if live and len(sc["batch"]) == 1:
      stats["nontrivial"].append(f"{key}|{kind}")
      stats["sets"].setdefault("fields_live", []).append(key)
    elif live:
      stats["nontrivial"].append(f"{'+'.join(sorted(sc['batch']))}|{kind}")
  if not live:
    stats["skipped"]["field_dead_in_scene"] = 1
  stats["faults"]["batched_fields"] = len(sc["batch"])
  stats["sample"] = {"model": sc["model"].get("path", "generated:" + ",".join(sc["model"].get("features", []))[:120]), "nworld": nworld, "target": t,
                     "batch": sc["batch"], "factors": {k: [float(x) for x in v] for k, v in facs.items()}, "K": K, "live": live}
  seams.set_alloc("NATIVE")
  return {"violations": viols, "stats": stats, "digest": core.digest(core.get_istate(mjm, mb, Db))}


def shrink(sc):
  base = dict(sc)
  if len(base["batch"]) > 1:
    for k in sorted(base["batch"]):
      yield dict(base, batch={a: b for a, b in base["batch"].items() if a != k})
  if base["K"] > 1:
    yield dict(base, K=max(1, base["K"] // 2))
  if base["alloc"][0] != "ZERO":
    yield dict(base, alloc=["ZERO", 0])
