"""C25 - solver termination is reported correctly and iterating past convergence is transparent (fault enumeration over the
iteration budget).

Per probe batch (worlds in different states, so that they converge after different numbers of iterations; some without any
constraint): a reference forward() with a generous limit gives n*[w].  Then every limit L in [0, max n* + 2] is injected, with
both loop forms (graph_conditional on / off), from the same state.
Oracle per world w: solver_niter[w] <= L and == min(L, n*[w]);  ITERATIONS bit set  <=>  L < n*[w] (the world stopped with the
tolerance test unmet);  for L >= n*[w] the world's qacc / efc.force / qfrc_constraint are bit-identical to the reference, and
identical between the two loop forms for every L.
"""

import numpy as np

from .. import core, scen, seams
from .. import rng as _rng

ID = "C25"
LEVEL = "fault_enumeration"
TIERS = {
  "quick": {"runs": 96, "chunk": 6, "budget_s": 420, "timeout_s": 300},
  "thorough": {"runs": 384, "chunk": 8, "budget_s": 1500, "timeout_s": 300},
}
RULE = ("one evaluation = one (probe batch, iteration limit L, loop form) forward() compared world by world with the generous-limit reference "
        "from the same state; per probe batch L is enumerated completely over [0, max n* + 2] (n* = iterations the world needs; bounded to 40 "
        "values when larger) for graph_conditional on and off; probe batches are sampled along seeded histories with nworld 2..4 and per-world "
        "different states; non-trivial = the budget actually cut at least one world (L < n*[w]) or the batch mixed converged and unconverged "
        "worlds; distinct = (solver, cone, jacobian, relation of L to n* in {zero, cut, exact, spare}, mixed-batch flag, loop form) tuples")
ASSUMPTIONS = ["the reference limit (200) is not reached by the reference solve (otherwise the world is skipped and counted)",
               "L = 0 is examined as its own class (violation class carries relation=zero)"]
ITER = core.OV_ITER
FIELDS = ["qacc", "qfrc_constraint"]


def gen(seed, idx, tier):
  r = _rng.gen("c25", seed, idx)
  feats = {"plane": True, "dense_contacts": True}
  spec, rejected = scen.pick_model(seed, idx, features=feats, size="s", curated_p=0.25)
  spec["opt"]["iterations"] = 200
  spec["opt"]["ls_iterations"] = 50
  spec["opt"]["tolerance"] = float(r.choice([1e-8, 1e-6, 1e-5]))
  return {
    "property": ID, "seed": seed, "idx": idx, "model": spec, "nworld": int(r.choice([2, 3, 4])), "rejected_models": rejected,
    "init": {"seed": int(r.integers(1 << 30)), "pos_noise": 0.2, "vel_noise": 1.0},
    "hist_seed": int(r.integers(1 << 30)), "probes": int(r.integers(1, 4)), "gap": int(r.integers(1, 15)),
    "lift_world": int(r.integers(0, 4)),  # this world is moved far from everything (no constraints) when < nworld
  }  # fmt: skip


def run(sc):
  import mujoco

  import mujoco_warp as mjw

  mjm, m = core.make_model(sc["model"])
  nworld = sc["nworld"]
  stats = {"evaluations": 0, "nontrivial": [], "faults": {}, "skipped": {}, "sim_time": 0.0, "sets": {}}
  faults = stats["faults"]

  def fault(k, n=1):
    faults[k] = faults.get(k, 0) + n

  caps = scen.ample_caps(mjm, nworld)
  seams.set_alloc("ZERO")
  R = core.make_data(mjm, m, {"nworld": nworld, "how": "make", "caps": caps, "init": sc["init"]})
  cr = core.Ctx(mjm, m, R)
  D = core.make_data(mjm, m, {"nworld": nworld, "how": "make", "caps": caps})
  viols = []
  o = sc["model"]["opt"]
  okey = f"{o.get('solver')}/{o.get('cone')}/{o.get('jacobian')}"
  gc0 = m.opt.graph_conditional
  for p in range(sc["probes"]):
    m.opt.iterations = 200
    for op in core.random_history(_rng.mix(sc["hist_seed"], p), mjm, nworld, sc["gap"]):
      core.apply_op(cr, op)
    S = core.get_istate(mjm, m, R)
    if not np.all(np.isfinite(S)) or scen.capacity_overflow(R):
      stats["skipped"]["bad_probe_state"] = stats["skipped"].get("bad_probe_state", 0) + 1
      break
    lw = sc["lift_world"]
    if lw < nworld:
      # a world without constraints: every free body far above the floor, limits unaffected
      off = 1  # time
      for j in range(mjm.njnt):
        if mjm.jnt_type[j] == mujoco.mjtJoint.mjJNT_FREE:
          S[lw, off + mjm.jnt_qposadr[j] + 2] += 50.0
    core.set_istate(mjm, m, D, S)
    core.clear_overflow(D)
    mjw.forward(m, D)
    ref = core.snapshot(m, D)
    if scen.capacity_overflow(ref):
      stats["skipped"]["capacity_overflow"] = stats["skipped"].get("capacity_overflow", 0) + 1
      continue
    nstar = ref["solver_niter"].copy()
    valid = [not (int(ref["overflow"][w]) & ITER) and int(nstar[w]) < 200 for w in range(nworld)]
    if not any(valid):
      stats["skipped"]["reference_not_converged"] = stats["skipped"].get("reference_not_converged", 0) + 1
      continue
    top = int(max(nstar[w] for w in range(nworld) if valid[w]))
    Ls = list(range(0, top + 3))
    if len(Ls) > 40:
      r = _rng.gen("L", sc["hist_seed"], p)
      keep = {0, 1, top - 1, top, top + 1, top + 2} | {int(n) for n in nstar} | {int(n) - 1 for n in nstar if n > 0} | {int(n) + 1 for n in nstar}
      rest = [x for x in Ls if x not in keep]
      Ls = sorted(keep | {rest[i] for i in r.choice(len(rest), size=max(0, 40 - len(keep)), replace=False)})
    mixed = len({int(n) for n in nstar}) > 1
    for L in Ls:
      per_form = {}
      for gc in (True, False):
        m.opt.iterations = L
        m.opt.graph_conditional = gc
        core.set_istate(mjm, m, D, S)
        core.clear_overflow(D)
        mjw.forward(m, D)
        got = core.snapshot(m, D)
        per_form[gc] = got
        stats["evaluations"] += 1
        for w in range(nworld):
          if not valid[w]:
            continue
          ns, ni, bit = int(nstar[w]), int(got["solver_niter"][w]), bool(int(got["overflow"][w]) & ITER)
          rel = "zero" if L == 0 and ns > 0 else "cut" if L < ns else "exact" if L == ns else "spare"
          if L < ns or mixed:
            stats["nontrivial"].append(f"{okey}|{rel}|mixed{int(mixed)}|gc{int(gc)}")
          if L < ns:
            fault("budget_cut_world")
          cls = {"solver": o.get("solver"), "relation": rel, "graph_conditional": gc}
          det = {"probe": p, "world": w, "L": L, "nstar": ns, "niter": ni, "bit": bit, "nefc": int(got["nefc"][w]), "nstar_all": [int(x) for x in nstar]}
          if ni > L:
            viols.append({"class": dict(cls, oracle="niter_exceeds_limit"), "detail": det})
          elif ni != min(L, ns):
            viols.append({"class": dict(cls, oracle="niter_not_min_of_limit_and_need"), "detail": det})
          if bit != (L < ns):
            viols.append({"class": dict(cls, oracle="iteration_bit_wrong", bit_reported=bit), "detail": det})
          if L >= ns:
            for f in FIELDS + ["efc.force"]:
              a = got["efc"]["force"][w, : int(got["nefc"][w])] if f == "efc.force" else got[f][w]
              b = ref["efc"]["force"][w, : int(ref["nefc"][w])] if f == "efc.force" else ref[f][w]
              if not core.bits_equal(a, b):
                viols.append({"class": dict(cls, oracle="iterating_past_convergence_changes_result", field=f), "detail": dict(det, first=core.first_diff(a, b))})
                break
      a, b = per_form[True], per_form[False]
      for w in range(nworld):
        for f in FIELDS + ["solver_niter", "overflow"]:
          if not core.bits_equal(a[f][w], b[f][w]):
            viols.append({"class": {"oracle": "loop_forms_differ", "field": f, "solver": o.get("solver")},
                          "detail": {"probe": p, "world": w, "L": L, "graph_conditional_on": core._js(a[f][w]), "off": core._js(b[f][w])}})
            break
      if len(viols) > 20:
        break
    if len(viols) > 20:
      break
  m.opt.iterations = 200
  m.opt.graph_conditional = gc0
  seen, out = set(), []
  for v in viols:
    k = core.jdump(v["class"])
    if k not in seen:
      seen.add(k)
      out.append(v)
  stats["sample"] = {"model": sc["model"].get("path", "generated:" + ",".join(sc["model"].get("features", []))[:120]), "opt": o, "nworld": nworld, "probes": sc["probes"]}
  return {"violations": out, "stats": stats, "digest": core.digest(core.get_istate(mjm, m, R))}


def shrink(sc):
  base = dict(sc)
  if base["probes"] > 1:
    yield dict(base, probes=base["probes"] - 1)
  if base["gap"] > 1:
    yield dict(base, gap=base["gap"] // 2)
  if base["nworld"] > 2:
    yield dict(base, nworld=base["nworld"] - 1)
