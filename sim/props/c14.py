"""C14 - reset_data_keyframe: valid-index worlds become "fresh reset + keyframe" (as mj_resetDataKeyframe), invalid-index
worlds stay untouched, invalid scalar keys and malformed key arrays are rejected.

Twin batches A and B live through the same history; reset_data_keyframe(m, A, key) is called on A only.
Reference for valid worlds: mujoco.mj_resetDataKeyframe on the same MjModel (cast to float32), plus a fresh Data that is
given that state for the comparison of the following trajectory. Reference for invalid worlds: twin B.
"""

import numpy as np

from .. import core, scen, seams
from .. import rng as _rng

ID = "C14"
LEVEL = "exploration"
TIERS = {
  "quick": {"runs": 96, "chunk": 6, "budget_s": 420, "timeout_s": 300},
  "thorough": {"runs": 384, "chunk": 8, "budget_s": 1500, "timeout_s": 300},
}
RULE = ("one evaluation = one (world, clause) comparison after a reset_data_keyframe call at a seeded point of a seeded multi-world history, "
        "or one rejection probe (invalid scalar key, malformed key array); keys are scalars (valid, -1, nkey, huge) and per-world arrays mixing "
        "valid and invalid indices; models carry 1-3 generated keyframes with time/qpos/qvel/act/ctrl/mocap data; non-trivial = the world's "
        "pre-call durable state differed from the keyframe state and the model had actuators, activations or mocap bodies; distinct = (key kind, "
        "feature set, solver/cone/jacobian/integrator, sleeping) tuples")
ASSUMPTIONS = ["MuJoCo 3.13 mj_resetDataKeyframe is the reference for the keyframe state (float64 keyframe data cast to float32)",
               "history buffers are compared against mujoco_warp's own fresh Data, not MuJoCo's (see C30 for that difference)",
               "following trajectories rely on content independence of worlds under the ascending schedule (C09a)"]


def _accept(mjm):
  return mjm.nkey >= 1


def gen(seed, idx, tier):
  r = _rng.gen("c14", seed, idx)
  feats = {"keyframes": True}
  if r.random() < 0.6:
    feats.update({"act": True, "act_dyn": True})
  if r.random() < 0.3:
    feats["act_user"] = True
  if r.random() < 0.5:
    feats["mocap"] = True
  if r.random() < 0.3:
    feats.update({"act_delay": True, "act": True})
  sleep = bool(r.random() < 0.2)
  spec, rejected = scen.pick_model(seed, idx, features=feats, curated_p=0.0, accept=_accept)
  # The reference of this check is the same world inside a batch whose other worlds differ. Under the sweep-and-prune broadphase the
  # position of one world's candidate pairs in the strided work list - and with it the listing order of its contacts and the round-off of
  # everything summed over them - depends on how many candidates the other worlds have (DESIGN 7, C09a): a bit-exact twin comparison is
  # only sound under the N x N broadphase, so that is what this check uses (SAP is exercised by C09, C11, C12, C16, C17).
  if spec.get("mopt"):
    spec["mopt"].pop("broadphase", None)
  if sleep:
    spec["opt"]["sleep"] = True
    spec["opt"]["sleep_tolerance"] = 0.05
  nworld = int(r.choice([1, 2, 3, 4]))
  kind = str(r.choice(["scalar_valid", "scalar_valid", "array_mixed", "array_mixed", "array_valid", "array_invalid", "scalar_invalid", "malformed"]))
  return {
    "property": ID, "seed": seed, "idx": idx, "model": spec, "nworld": nworld, "rejected_models": rejected,
    "init": {"seed": int(r.integers(1 << 30)), "pos_noise": 0.15, "vel_noise": 0.8, "act_noise": 0.5},
    "hist_seed": int(r.integers(1 << 30)), "hist_steps": int(r.integers(1, 30)),
    "key_kind": kind, "key_seed": int(r.integers(1 << 30)),
    "K": int(r.integers(1, 6)), "after_seed": int(r.integers(1 << 30)),
    "alloc": [str(r.choice(["ZERO", "POISON", "GARBAGE"])), int(r.integers(1 << 30))],
  }  # fmt: skip


def _key(sc, nkey, nworld):
  r = _rng.gen("key", sc["key_seed"])
  kind = sc["key_kind"]
  if "key" in sc:
    return sc["key"]
  if kind == "scalar_valid":
    return int(r.integers(0, nkey))
  if kind == "scalar_invalid":
    return int(r.choice([-1, nkey, nkey + 7, -5, 2**20]))
  if kind == "array_valid":
    return [int(r.integers(0, nkey)) for _ in range(nworld)]
  if kind == "array_invalid":
    return [int(r.choice([-1, nkey, nkey + 3, -9])) for _ in range(nworld)]
  if kind == "array_mixed":
    return [int(r.integers(0, nkey)) if r.random() < 0.5 else int(r.choice([-1, nkey, nkey + 3, -2])) for _ in range(nworld)]
  return None  # malformed


def run(sc):
  import mujoco
  import warp as wp

  import mujoco_warp as mjw

  mjm, m = core.make_model(sc["model"])
  nworld, K = sc["nworld"], sc["K"]
  nkey = mjm.nkey
  stats = {"evaluations": 0, "nontrivial": [], "faults": {}, "skipped": {}, "sim_time": 0.0, "sets": {}}
  faults = stats["faults"]

  def fault(k, n=1):
    faults[k] = faults.get(k, 0) + n

  caps = scen.ample_caps(mjm, nworld)
  seams.set_alloc(*sc["alloc"])
  mk = lambda init: core.make_data(mjm, m, {"nworld": nworld, "how": "make", "caps": caps, "init": init})
  A, B, F = mk(sc["init"]), mk(sc["init"]), mk(None)
  ca, cb, cf = core.Ctx(mjm, m, A), core.Ctx(mjm, m, B), core.Ctx(mjm, m, F)
  hist = sc.get("ops")
  if hist is None:
    hist = core.random_history(sc["hist_seed"], mjm, nworld, sc["hist_steps"])
    if mjm.na:
      hist = [["act", -1, [0.3, -0.2, 0.5, 0.1]]] + hist
  for op in hist:
    core.apply_op(ca, op)
    core.apply_op(cb, op)
  viols = []
  if scen.capacity_overflow(A):
    stats["skipped"]["overflow_in_history"] = 1
    return {"violations": [], "stats": stats}
  kind = sc["key_kind"]
  key = _key(sc, nkey, nworld)
  pre_state = core.get_istate(mjm, m, A)
  pre = core.snapshot(m, A)
  sleeping = core.sleep_enabled(m)
  feat = "+".join(x for x, c in (("act", mjm.na), ("nu", mjm.nu), ("mocap", mjm.nmocap), ("hist", mjm.nhistory)) if c)
  nkey_key = f"{kind}|{feat}|{scen.opt_key(sc['model'])}|sleep{int(sleeping)}"

  # ---- rejection probes
  if kind in ("scalar_invalid", "malformed"):
    probes = []
    if kind == "scalar_invalid":
      probes.append(("scalar", key, key))
    else:
      r = _rng.gen("mal", sc["key_seed"])
      probes.append(("wrong_shape", wp.array(np.zeros(nworld + 1, dtype=np.int32), dtype=int), "shape nworld+1"))
      probes.append(("wrong_dtype", wp.array(np.zeros(nworld, dtype=np.float32), dtype=float), "float dtype"))
      probes.append(("wrong_ndim", wp.array(np.zeros((nworld, 1), dtype=np.int32), dtype=int), "2-d"))
    for name, k, desc in probes:
      stats["evaluations"] += 1
      stats["nontrivial"].append(nkey_key + "|" + name)
      fault("rejection_probe_" + name)
      try:
        mjw.reset_data_keyframe(m, A, k)
        raised = None
      except ValueError:
        raised = "ValueError"
      except Exception as e:  # another exception type is also a rejection, recorded
        raised = type(e).__name__
      post_state = core.get_istate(mjm, m, A)
      if raised is None:
        viols.append({"class": {"oracle": "invalid_key_rejected", "kind": name}, "detail": {"key": desc, "nkey": int(nkey)}})
      elif not core.bits_equal(post_state, pre_state):
        viols.append({"class": {"oracle": "rejected_call_left_state_changed", "kind": name}, "detail": {"key": desc}})
    stats["sample"] = {"key_kind": kind, "key": key if isinstance(key, int) else "malformed arrays", "nkey": int(nkey), "nworld": nworld}
    seams.set_alloc("NATIVE")
    return {"violations": viols, "stats": stats}

  # ---- an earlier, unrelated keyframe reset in the same process (another Data of the same size, another key): nothing of it may
  # survive into the call under test (host-side buffers reused between calls, caches keyed by shape only)
  rd = _rng.gen("decoy", sc["key_seed"])
  if rd.random() < 0.5 and nkey >= 1:
    Z = mk(None)
    if rd.random() < 0.6:
      dk = int(rd.integers(0, nkey))
      if not isinstance(key, list) and nkey >= 2 and dk == key:
        dk = (dk + 1) % nkey
      mjw.reset_data_keyframe(m, Z, dk)
    else:
      mjw.reset_data_keyframe(m, Z, wp.array(np.asarray([int(rd.integers(-1, nkey + 1)) for _ in range(nworld)], dtype=np.int32), dtype=int))
    fault("earlier_keyframe_reset_on_another_data")
  # ---- the call (A only)
  if isinstance(key, list):
    mjw.reset_data_keyframe(m, A, wp.array(np.asarray(key, dtype=np.int32), dtype=int))
    keys = key
  else:
    mjw.reset_data_keyframe(m, A, int(key))
    keys = [key] * nworld
  fault("keyframe_reset_" + kind)
  valid = [0 <= k < nkey for k in keys]
  post_state = core.get_istate(mjm, m, A)
  post = core.snapshot(m, A)
  fresh_state = core.get_istate(mjm, m, F)
  # expected state per valid world from MuJoCo
  comps = []
  off = 0
  for bit in range(int(mujoco.mjtState.mjNSTATE)):
    n = mujoco.mj_stateSize(mjm, 1 << bit)
    comps.append((mujoco.mjtState(1 << bit).name.replace("mjSTATE_", "").lower(), off, off + n))
    off += n
  expect = fresh_state.copy()
  mjd = mujoco.MjData(mjm)
  for w in range(nworld):
    if valid[w]:
      mujoco.mj_resetDataKeyframe(mjm, mjd, keys[w])
      st = np.zeros(off)
      mujoco.mj_getState(mjm, mjd, st, core.INTEGRATION)
      st = st.astype(np.float32)
      for name, a, b in comps:
        if name != "history":  # mujoco_warp's own fresh history is the reference for that component (see C30)
          expect[w, a:b] = st[a:b]

  def state_diff(x, y):
    for name, a, b in comps:
      if not core.bits_equal(x[a:b], y[a:b]):
        i = int(np.argwhere(~((x[a:b] == y[a:b]) | (np.isnan(x[a:b]) & np.isnan(y[a:b]))))[0][0])
        return name, {"index": i, "size": b - a, "got": float(x[a + i]), "want": float(y[a + i])}
    return None

  resync = []
  for w in range(nworld):
    stats["evaluations"] += 1
    if valid[w]:
      if not core.bits_equal(pre_state[w], expect[w]) and feat:
        stats["nontrivial"].append(nkey_key)
      dd = state_diff(post_state[w], expect[w])
      if dd:
        extra = ">=nu" if dd[0] == "act" and dd[1]["index"] >= mjm.nu else ""
        viols.append({"class": {"oracle": "keyframe_state", "field": dd[0] + extra, "world_role": "valid"}, "detail": dict(dd[1], world=w, key=keys[w])})
        resync.append(w)
    else:
      dd = state_diff(post_state[w], pre_state[w])
      if dd:
        viols.append({"class": {"oracle": "invalid_index_untouched_state", "field": dd[0], "world_role": "invalid"}, "detail": dict(dd[1], world=w, key=keys[w])})
      va, vb = core.world_view(pre, w, efc=False), core.world_view(post, w, efc=False)
      cd = [k for k, _ in core.diff_views(va, vb) if k.startswith("contact.")]
      if cd:
        nb, na_ = int(va["contact.count"][0]), int(vb["contact.count"][0])
        if na_ == 0 and nb > 0 and valid[0]:
          knd = "all_vanish_when_world0_is_reset"
        elif w == 0 and na_ > nb:
          knd = "world0_gains_zeroed_entries_of_reset_worlds"
        else:
          knd = "other"
        viols.append({"class": {"oracle": "invalid_index_untouched_contacts", "kind": knd, "world_role": "invalid"},
                      "detail": {"world": w, "keys": keys, "contacts_before": nb, "contacts_after": na_}})
  # ---- following trajectories: valid worlds vs fresh Data holding the expected state; invalid worlds vs twin B
  if resync:
    act = np.zeros(nworld, dtype=bool)
    act[resync] = True
    core.set_istate(mjm, m, A, expect, active=act)
    fault("resync_after_reported_state_difference", len(resync))
  core.set_istate(mjm, m, F, expect)
  after = [core.random_history(_rng.mix(sc["after_seed"], k), mjm, nworld, 1)[:-1] for k in range(K)]
  ok = True
  k = 0
  while ok and k < K:
    for op in after[k]:
      for cx in (ca, cb, cf):
        core.apply_op(cx, op)
    for d in (A, B, F):
      mjw.step(m, d)
    stats["sim_time"] += float(mjm.opt.timestep) * nworld * 3
    sa, sb, sf = core.snapshot(m, A), core.snapshot(m, B), core.snapshot(m, F)
    if any(scen.capacity_overflow(x) for x in (sa, sb, sf)):
      stats["skipped"]["capacity_overflow"] = stats["skipped"].get("capacity_overflow", 0) + 1
      break
    for w in range(nworld):
      stats["evaluations"] += 1
      va = core.world_view(sa, w)
      vr = core.world_view(sf if valid[w] else sb, w)
      dd = core.diff_views(va, vr)
      if dd:
        viols.append({"class": {"oracle": "keyframe_following_trajectory", "field": dd[0][0], "world_role": "valid" if valid[w] else "invalid"},
                      "detail": {"world": w, "step": k + 1, "keys": keys, "fields": [x[0] for x in dd][:10], "first": dd[0][1]}})
        ok = False
        break
    k += 1
  stats["sample"] = {"model": "generated:" + ",".join(sc["model"].get("features", []))[:120], "opt": sc["model"].get("opt"), "nworld": nworld,
                     "key_kind": kind, "keys": keys, "nkey": int(nkey), "history_ops": len(hist), "K": K}
  seams.set_alloc("NATIVE")
  return {"violations": viols, "stats": stats, "digest": core.digest(post_state)}


def shrink(sc):
  mjm, _ = core.make_model(sc["model"])
  base = dict(sc)
  if "key" not in base and base["key_kind"] not in ("malformed",):
    base["key"] = _key(sc, mjm.nkey, sc["nworld"])
  if "ops" not in base:
    hist = core.random_history(sc["hist_seed"], mjm, sc["nworld"], sc["hist_steps"])
    if mjm.na:
      hist = [["act", -1, [0.3, -0.2, 0.5, 0.1]]] + hist
    base["ops"] = hist
  for cand in scen.ddmin_ops(base["ops"]):
    yield dict(base, ops=cand)
  if base["K"] > 1:
    yield dict(base, K=1)
  if base["alloc"][0] != "ZERO":
    yield dict(base, alloc=["ZERO", 0])
