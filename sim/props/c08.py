"""C08 - time integration agrees with MuJoCo C along histories (lock-step refinement, simulated clock).

Along a seeded history every step is taken twice from the same integration state: by mujoco_warp.step and by mujoco.mj_step
(the MuJoCo state is re-synchronised from mujoco_warp's get_state(INTEGRATION) before every step, so nothing accumulates).
Oracle: next time, qpos, qvel, act, qacc_warmstart agree up to float32 round-off / solver tolerance; time exactly on dyadic
timesteps. Steps in which either solver stopped on its iteration limit are skipped and counted. Sleep-disabled models.
This is the most tolerance-dependent check and is deliberately narrow: models are restricted to smooth dynamics plus
limits, equalities and frictionless/pyramidal contacts with generous iteration budgets.
"""

import numpy as np

from .. import core, scen, seams
from .. import rng as _rng

ID = "C08"
LEVEL = "exploration"
TIERS = {
  "quick": {"runs": 96, "chunk": 6, "budget_s": 420, "timeout_s": 300},
  "thorough": {"runs": 384, "chunk": 8, "budget_s": 1500, "timeout_s": 300},
}
RULE = ("one evaluation = one step compared between mujoco_warp and MuJoCo C from the same synchronised state; histories of 5-60 steps with "
        "seeded controls, applied forces, equality toggles and mocap moves on generated/curated models for each integrator (Euler with and "
        "without implicit damping, implicitfast, implicit, RK4), with actuator dynamics, ball and free joints; non-trivial = the step had "
        "active constraint rows or actuator dynamics or quaternion joints; distinct = (integrator, eulerdamp, constrained/unconstrained, "
        "actuator-dynamics, joint kinds, solver/cone) tuples")
ASSUMPTIONS = ["MuJoCo 3.13 is the reference", "tolerance per component: |a-b| <= atol + rtol*scale, scale = max|component| of the world (qvel: also h*max|qacc|); "
               "unconstrained steps (no row in either engine) (rtol, atol): qpos (2e-6, 1e-6), act (1e-5, 1e-6), qvel (4e-5, 2e-6), warmstart (2e-3, 1e-3) - "
               "float32 round-off, >= 19x the worst ratio seen on the repaired tree; constrained steps: qpos/act (5e-4, 1e-5), qvel (1e-2, 1e-4), "
               "warmstart (1e-1, 5e-3) - solver tolerance",
               "constrained steps are skipped and counted when the reference does not meet the tolerance itself (h*|M^-1 (M qacc - qfrc_smooth - qfrc_constraint)| "
               "of MuJoCo's own solution above a quarter of the qvel tolerance), when either solver needs more than 40 iterations, or when a row has D >= 1e12 "
               "(vanishing Jacobian)",
               "steps where the two engines assemble different constraint rows (multiset of efc_aref / efc_D differs by more than 1e-3 relative: contact "
               "frames and row assembly are C04/C05, not claimed) or see different contact sets are skipped and counted",
               "steps where either solver hit its iteration limit, or where the number of constraint rows differs between the two engines (a distance "
               "within round-off of an activation threshold), are skipped and counted"]


def gen(seed, idx, tier):
  r = _rng.gen("c08", seed, idx)
  feats = {"sleep": False, "ellipsoid": False, "cylinder": False, "margin": False, "pile": False, "act_delay": False, "sensor_delay": False, "act_user": False}
  opt = None
  spec, rejected = scen.pick_model(seed, idx, features=feats, size="s", curated_p=0.15, curated=["mujoco_warp/test_data/pendula.xml", "mujoco_warp/test_data/constraints.xml", "mujoco_warp/test_data/tendon/fixed.xml"])
  spec["opt"]["iterations"] = 200
  spec["opt"]["ls_iterations"] = 100
  spec["opt"]["tolerance"] = 1e-10
  spec["opt"]["cone"] = "pyramidal" if r.random() < 0.7 else "elliptic"
  spec["opt"]["timestep"] = float(r.choice([0.001953125, 0.00390625, 0.002, 0.005]))
  spec.pop("mopt", None)
  return {
    "property": ID, "seed": seed, "idx": idx, "model": spec, "nworld": int(r.choice([1, 2])), "rejected_models": rejected,
    "init": {"seed": int(r.integers(1 << 30)), "pos_noise": 0.1, "vel_noise": float(_rng.gen("c08vel", seed, idx).choice([0.6, 0.6, 2.5, 8.0])), "act_noise": 0.2},
    "hist_seed": int(r.integers(1 << 30)), "steps": int(r.integers(5, 60)),
  }  # fmt: skip


def _solver_cost_gap(mujoco, mjm, mjd, qacc_w):
  """Relative excess of the constraint-solver cost of mujoco_warp's qacc over MuJoCo's own, both evaluated in float64 on MuJoCo's rows
  (equality, friction loss, limits, frictionless and pyramidal contacts; None when an elliptic row is present or there is no row).
  A positive gap means mujoco_warp's solver stopped above the optimum MuJoCo reached: a solver matter (C06), reported as such."""
  n, nv = int(mjd.nefc), int(mjm.nv)
  if n == 0 or nv == 0 or np.any(np.asarray(mjd.efc_type) == 7):
    return None
  J = np.zeros((n, nv))
  if mujoco.mj_isSparse(mjm):
    mujoco.mju_sparse2dense(J, mjd.efc_J, mjd.efc_J_rownnz, mjd.efc_J_rowadr, mjd.efc_J_colind)
  else:
    J = np.asarray(mjd.efc_J).reshape(n, nv).copy()
  aref, D, typ, fl = np.asarray(mjd.efc_aref), np.asarray(mjd.efc_D), np.asarray(mjd.efc_type), np.asarray(mjd.efc_frictionloss)

  def cost(qacc):
    dq = qacc - mjd.qacc_smooth
    Mdq = np.zeros(nv)
    mujoco.mj_mulM(mjm, mjd, Mdq, dq)
    c = 0.5 * float(dq @ Mdq)
    jar = J @ qacc - aref
    for i in range(n):
      if typ[i] == 0:
        c += 0.5 * D[i] * jar[i] ** 2
      elif typ[i] in (1, 2):
        R = 1.0 / D[i]
        c += (-0.5 * R * fl[i] ** 2 - fl[i] * jar[i]) if jar[i] <= -R * fl[i] else (-0.5 * R * fl[i] ** 2 + fl[i] * jar[i]) if jar[i] >= R * fl[i] else 0.5 * D[i] * jar[i] ** 2
      elif jar[i] < 0:
        c += 0.5 * D[i] * jar[i] ** 2
    return c

  cm, cw = cost(np.asarray(mjd.qacc, dtype=np.float64)), cost(np.asarray(qacc_w, dtype=np.float64))
  return (cw - cm) / max(abs(cm), 1e-12)


def run(sc):
  import mujoco

  import mujoco_warp as mjw

  mjm, m = core.make_model(sc["model"])
  nworld = sc["nworld"]
  stats = {"evaluations": 0, "nontrivial": [], "faults": {}, "skipped": {}, "sim_time": 0.0, "sets": {}}
  caps = scen.ample_caps(mjm, nworld)
  seams.set_alloc("ZERO")
  d = core.make_data(mjm, m, {"nworld": nworld, "how": "make", "caps": caps, "init": sc["init"]})
  cx = core.Ctx(mjm, m, d)
  mjd = mujoco.MjData(mjm)
  comps, off = [], 0
  for bit in range(int(mujoco.mjtState.mjNSTATE)):
    n = mujoco.mj_stateSize(mjm, 1 << bit)
    comps.append((mujoco.mjtState(1 << bit).name.replace("mjSTATE_", "").lower(), off, off + n))
    off += n
  pv_lo = next(a for n_, a, b in comps if n_ == "qpos")
  pv_hi = next(b for n_, a, b in comps if n_ == "qvel")
  integ = sc["model"]["opt"].get("integrator", "euler")
  eulerdamp = not (int(sc["model"]["opt"].get("disableflags", 0)) & 32768)
  dt = float(mjm.opt.timestep)
  kinds = "+".join(sorted({mujoco.mjtJoint(int(t)).name[6:].lower() for t in mjm.jnt_type}))
  # a free-joint body without child bodies: MuJoCo 3.13's implicitfast keeps the derivative of its gyroscopic force (see the listed
  # finding F-C08-implicitfast-gyroscopic-derivative); the flag is part of the violation class so that the listing stays narrow
  has_child = set(int(p_) for p_ in mjm.body_parentid[1:])
  leaf_free = bool(any(int(mjm.jnt_type[j]) == 0 and int(mjm.jnt_bodyid[j]) not in has_child for j in range(mjm.njnt)))
  viols = []
  # (rtol, atol) per component. Unconstrained steps are pure smooth dynamics + integrator arithmetic: float32 round-off only (calibrated
  # on the repaired tree: worst observed error / scale, recorded in faults_fired.worst_*_relerr_x1e9, is below 1/20 of these values).
  # Constrained steps additionally carry the two solvers' termination tolerance.
  TOL_FREE = {"time": (0.0, 1e-7), "qpos": (2e-6, 1e-6), "act": (1e-5, 1e-6), "qvel": (4e-5, 2e-6), "warmstart": (2e-3, 1e-3)}
  TOL_CON = {"time": (0.0, 1e-7), "qpos": (5e-4, 1e-5), "act": (5e-4, 1e-5), "qvel": (1e-2, 1e-4), "warmstart": (1e-1, 5e-3)}
  for k in range(sc["steps"]):
    for op in core.random_history(_rng.mix(sc["hist_seed"], k), mjm, nworld, 1)[:-1]:
      core.apply_op(cx, op)
    S = core.get_istate(mjm, m, d)
    if not np.all(np.isfinite(S)):
      stats["skipped"]["nonfinite_state"] = 1
      break
    core.clear_overflow(d)
    with core.StageNeed() as tap:
      mjw.step(m, d)
    stats["sim_time"] += dt * nworld
    S2 = core.get_istate(mjm, m, d)
    ov = d.overflow.numpy()
    nefc_w = d.nefc.numpy()
    niter_w = d.solver_niter.numpy()
    qacc_w = d.qacc.numpy().copy()
    if scen.capacity_overflow(d):
      stats["skipped"]["capacity_overflow"] = stats["skipped"].get("capacity_overflow", 0) + 1
      break
    efc_aref, efc_D = d.efc.aref.numpy(), d.efc.D.numpy()
    con_w = d.contact.worldid.numpy()[: int(d.nacon.numpy()[0])]
    con_d = d.contact.dist.numpy()[: int(d.nacon.numpy()[0])]
    for w in range(nworld):
      if float(np.max(np.abs(S[w, pv_lo:pv_hi]))) > 200.0:  # positions / velocities only (warmstart accelerations are routinely large)
        stats["skipped"]["unphysical_state"] = stats["skipped"].get("unphysical_state", 0) + 1
        continue
      mujoco.mj_setState(mjm, mjd, S[w].astype(np.float64), core.INTEGRATION)
      try:
        mujoco.mj_step(mjm, mjd)
      except Exception:
        stats["skipped"]["mujoco_raised"] = stats["skipped"].get("mujoco_raised", 0) + 1
        mjd = mujoco.MjData(mjm)
        continue
      if integ != "rk4":
        # the two engines must see the same contact set (collision agreement is C04, not C08): same count, distances within 1e-4
        mine = np.sort(con_d[con_w == w])
        theirs = np.sort(np.array([mjd.contact[i].dist for i in range(mjd.ncon)]))
        if mine.shape != theirs.shape or (mine.size and float(np.max(np.abs(mine - theirs))) > 1e-4):
          stats["skipped"]["contact_sets_differ"] = stats["skipped"].get("contact_sets_differ", 0) + 1
          continue
      elif mjd.ncon or int((con_w == w).sum()) or tap.nacon:  # tap: a contact in ANY Runge-Kutta stage of any world (the final stage may have none)
        stats["skipped"]["rk4_with_contacts"] = stats["skipped"].get("rk4_with_contacts", 0) + 1
        continue
      want = np.zeros(off)
      mujoco.mj_getState(mjm, mjd, want, core.INTEGRATION)
      constrained = int(nefc_w[w]) > 0 or mjd.nefc > 0
      if (int(ov[w]) & (core.OV_ITER | core.OV_LS)) or (mjd.solver_niter[0] >= mjm.opt.iterations if mjd.nefc else False):
        stats["skipped"]["solver_budget_hit"] = stats["skipped"].get("solver_budget_hit", 0) + 1
        continue
      if mjd.nefc and float(np.max(mjd.efc_D)) >= 1e12:
        # a row whose Jacobian vanishes (D = 1/diagApprox = 1e15): its force is round-off times 1e15 in either engine
        stats["skipped"]["degenerate_constraint_row"] = stats["skipped"].get("degenerate_constraint_row", 0) + 1
        continue
      if constrained and integ != "rk4" and mjm.nv:
        # how well does the reference satisfy its own equation of motion?  r = M qacc - qfrc_smooth - qfrc_constraint is the residual of
        # MuJoCo's solver (float64); mj_implicit integrates qfrc_smooth + qfrc_constraint while mujoco_warp integrates M qacc, so on a
        # step where constraint and smooth forces cancel to 1e-4 (1e6 N against 1e2 N of inertia) the two differ by h * M^-1 r although both
        # are right. The reference is no reference at a tolerance it does not meet itself: such steps are skipped and counted.
        rr = np.zeros(mjm.nv)
        mujoco.mj_mulM(mjm, mjd, rr, mjd.qacc)
        rr -= mjd.qfrc_smooth + mjd.qfrc_constraint
        xx = np.zeros((1, mjm.nv))
        mujoco.mj_solveM(mjm, mjd, xx, rr.reshape(1, -1))
        ref_dv = dt * float(np.max(np.abs(xx)))
        vscale = max(float(np.max(np.abs(mjd.qvel))), dt * float(np.max(np.abs(mjd.qacc))), 1e-3)
        if ref_dv > 0.25 * (TOL_CON["qvel"][1] + TOL_CON["qvel"][0] * vscale):
          stats["skipped"]["reference_residual_exceeds_tolerance"] = stats["skipped"].get("reference_residual_exceeds_tolerance", 0) + 1
          continue
      if constrained and (int(niter_w[w]) > 40 or (mjd.nefc and int(mjd.solver_niter[0]) > 40)):
        # a constrained step on which either Newton/CG solver needs more than 40 iterations is ill-conditioned: the two solvers stop at
        # different points of a flat cost valley and the difference is set by their termination tests, not by the integrator
        stats["skipped"]["ill_conditioned_solve"] = stats["skipped"].get("ill_conditioned_solve", 0) + 1
        continue
      if integ != "rk4" and int(nefc_w[w]) != int(mjd.nefc):
        stats["skipped"]["row_count_differs_threshold"] = stats["skipped"].get("row_count_differs_threshold", 0) + 1
        continue
      if integ != "rk4" and mjd.nefc:
        # the assembled rows must agree as a multiset (reference accelerations and regularisation): differences there belong to
        # collision / constraint assembly (C04, C05: e.g. another tangent basis of a pyramidal contact), not to time integration
        n = int(mjd.nefc)
        a1, a2 = np.sort(efc_aref[w, :n].astype(np.float64)), np.sort(np.asarray(mjd.efc_aref, dtype=np.float64))
        d1, d2 = np.sort(efc_D[w, :n].astype(np.float64)), np.sort(np.asarray(mjd.efc_D, dtype=np.float64))
        if np.max(np.abs(a1 - a2)) > 1e-3 * max(1.0, float(np.max(np.abs(a2)))) or np.max(np.abs(d1 - d2)) > 1e-3 * max(1.0, float(np.max(np.abs(d2)))):
          stats["skipped"]["constraint_rows_differ_between_engines"] = stats["skipped"].get("constraint_rows_differ_between_engines", 0) + 1
          continue
      if not np.all(np.isfinite(want)) or not np.all(np.isfinite(S2[w])):
        stats["skipped"]["nonfinite_next_state"] = stats["skipped"].get("nonfinite_next_state", 0) + 1
        continue
      stats["evaluations"] += 1
      if constrained or mjm.na or "free" in kinds or "ball" in kinds:
        stats["nontrivial"].append(f"{integ}|ed{int(eulerdamp)}|{'con' if constrained else 'free'}|na{int(mjm.na > 0)}|{kinds}|{sc['model']['opt'].get('solver')}/{sc['model']['opt'].get('cone')}")
      TOL = TOL_CON if constrained else TOL_FREE
      for name, a, b in comps:
        if name not in TOL or a == b:
          continue
        rtol, atol = TOL[name]
        x, y = S2[w, a:b].astype(np.float64), want[a:b]
        scale = max(float(np.max(np.abs(y))), float(np.max(np.abs(S[w, a:b]))), 1e-3)
        if name == "qvel":
          # the velocity update is dt * qacc: scale the allowance with the acceleration level as well
          scale = max(scale, dt * float(np.max(np.abs(mjd.qacc))) if mjm.nv else 0.0)
        tol = atol + rtol * scale
        err = float(np.max(np.abs(x - y)))
        key = f"worst_{'con' if constrained else 'free'}_{name}_err_over_tol_x1000"
        stats["faults"][key] = max(stats["faults"].get(key, 0), int(1000 * err / tol))
        key = f"worst_{'con' if constrained else 'free'}_{name}_relerr_x1e9"
        stats["faults"][key] = max(stats["faults"].get(key, 0), int(1e9 * err / scale))
        if err > tol:
          i = int(np.argmax(np.abs(x - y)))
          gap = _solver_cost_gap(mujoco, mjm, mjd, qacc_w[w]) if (constrained and integ != "rk4") else None
          viols.append({"class": {"oracle": "step_matches_mujoco", "component": name, "integrator": integ, "constrained": bool(constrained),
                                  "leaf_free_body": leaf_free, "mjw_solver_above_optimum": bool(gap is not None and gap > 1e-3)},
                        "detail": {"step": k + 1, "world": w, "index": i, "got": float(x[i]), "want": float(y[i]), "err": err, "tol": tol, "nefc": int(nefc_w[w]),
                                   "mj_nefc": int(mjd.nefc), "mjw_niter": int(d.solver_niter.numpy()[w]), "mj_niter": int(mjd.solver_niter[0]),
                                   "solver_cost_gap": gap}})
          break
      if viols:
        break
    if viols:
      break
  stats["sample"] = {"model": sc["model"].get("path", "generated:" + ",".join(sc["model"].get("features", []))[:100]), "opt": sc["model"]["opt"], "nworld": nworld, "steps": sc["steps"]}
  return {"violations": viols, "stats": stats, "digest": core.digest(core.get_istate(mjm, m, d))}


def shrink(sc):
  base = dict(sc)
  if base["steps"] > 1:
    yield dict(base, steps=max(1, base["steps"] // 2))
    yield dict(base, steps=base["steps"] - 1)
  if base["nworld"] > 1:
    yield dict(base, nworld=1)
