"""C38 - the compacted active-DOF solve is equivalent to the full solve (fault enumeration over the DOF capacity nvmax).

Lock-step variants of one seeded multi-tree history with sleeping enabled:
  N   sleeping disabled (full solve)            - reference while every tree is awake
  A   sleeping enabled, nvmax = nv (ample)      - reference for every capacity
  C_c sleeping enabled, nvmax = c for every c in [0, nv] (complete for nv <= 24)
All receive the same inputs each step.  Oracle per world and step:
  * every tree awake in A  =>  A's qacc, qfrc_constraint, efc.force equal N's (bit-exact first, solver tolerance fall-back);
  * DOFs of sleeping trees have exactly zero qacc (and bit-unchanged qpos/qvel);
  * active DOFs of the world > c  =>  NVMAX bit set in C_c;   no capacity bit in C_c  =>  C_c's world equals A's world.
"""

import numpy as np

from .. import core, scen, seams
from .. import rng as _rng

ID = "C38"
LEVEL = "fault_enumeration"
TIERS = {
  "quick": {"runs": 48, "chunk": 3, "budget_s": 420, "timeout_s": 400},
  "thorough": {"runs": 256, "chunk": 4, "budget_s": 1800, "timeout_s": 600},
}
RULE = ("one evaluation = one (step, capacity value or reference pair, world) comparison along a lock-step history; per run nvmax is enumerated "
        "completely over [0, nv] when nv <= 24 (else {0,1,2, nv/2, nv-2..nv} plus the active-DOF counts that occur in the history and their "
        "neighbours); active-tree subsets are the ones real sleep histories produce (multi-tree scenes, raised sleep tolerance, kicks and "
        "applied forces that wake trees); non-trivial = the capacity was below the world's active DOF count, or some but not all trees were "
        "asleep while the compacted and the ample solve were compared; distinct = (relation of nvmax to active DOFs, number of sleeping trees "
        "bucket, jacobian, cone) tuples")
ASSUMPTIONS = ["the NVMAX bit is checked one way (need > capacity => bit), as the property states", "overflow bits are cleared before every step",
               "after a world reports a capacity overflow its later steps are not compared",
               "full-vs-compact fall-back tolerance: 1e-5 + 5e-3*scale on force level fields when bit-identity does not hold"]
NVMAX = 128
CMP = ["qacc", "qfrc_constraint", "qpos", "qvel"]
SLEEP_STATE = ["tree_asleep", "tree_awake", "body_awake", "ntree_awake", "nbody_awake", "nv_awake", "body_awake_ind", "dof_awake_ind"]


def _accept(mjm):
  return mjm.ntree >= 2 and mjm.nv <= 48


def gen(seed, idx, tier):
  r = _rng.gen("c38", seed, idx)
  feats = {"plane": True, "free": True, "dense_contacts": True, "tiny": False, "eq_connect": False, "eq_weld": False, "mocap": False}
  feats["pile"] = False
  script = bool(_rng.gen("c38script", seed, idx).random() < 0.5)
  if script:
    # scripted wake sequences want several free trees and DOF addresses beyond the padded size of a small capacity (nv > 16 + one tree)
    feats.update({"free": True, "actuators_off": True, "act": False})
  spec, rejected = scen.pick_model(seed, idx, features=feats, size=str(r.choice(["s", "m"])), curated_p=0.0,
                                   accept=(lambda mm: mm.ntree >= 3 and 22 <= mm.nv <= 48) if script else _accept, tries=60)
  spec["opt"]["solver"] = "newton"
  spec["opt"]["sleep_tolerance"] = float(r.choice([0.05, 0.3, 1.0, 3.0]))
  spec["opt"]["disableflags"] = int(spec["opt"].get("disableflags", 0)) & ~262144
  return {
    "property": ID, "seed": seed, "idx": idx, "model": spec, "nworld": int(r.choice([1, 2, 3])), "rejected_models": rejected, "tier": tier,
    "init": {"seed": int(r.integers(1 << 30)), "pos_noise": 0.03, "vel_noise": 0.2},
    "hist_seed": int(r.integers(1 << 30)), "K": int(r.integers(20, 45)) if tier != "thorough" else int(r.integers(25, 90)), "kick_p": float(r.choice([0.02, 0.05, 0.1])),
    "value_seed": int(r.integers(1 << 30)),
    "wake_script": script, "settle": int(_rng.gen("c38settle", seed, idx).integers(25, 45)),
  }  # fmt: skip


def _ops(sc, mjm, nworld, k):
  """Mostly quiet inputs (so that trees fall asleep), occasional kicks / forces on single trees (so that they wake)."""
  r = _rng.gen("c38ops", sc["hist_seed"], k)
  ops = []
  for w in range(nworld):
    if r.random() < sc["kick_p"]:
      v = np.zeros(mjm.nv)
      t = int(r.integers(0, mjm.ntree))
      sel = mjm.dof_treeid == t
      v[sel] = r.normal(0, 1.0, int(sel.sum()))
      ops.append(["kick", w, [round(float(x), 4) for x in v]])
    if r.random() < sc["kick_p"]:
      ops.append(["xfrc", w, int(r.integers(1, mjm.nbody)), [round(float(x), 3) for x in r.normal(0, 3.0, 6)]])
    elif r.random() < 0.3:
      ops.append(["xfrc", w, int(r.integers(1, mjm.nbody)), [0.0] * 6])
  return ops


def run(sc):
  import mujoco_warp as mjw

  spec_s = dict(sc["model"], opt=dict(sc["model"]["opt"], sleep=True))
  if sc.get("wake_script"):
    spec_s["opt"]["sleep_tolerance"] = 5.0  # everything that may sleep does so after MINAWAKE steps: the script decides who is awake
  spec_n = dict(sc["model"], opt=dict(sc["model"]["opt"]))
  mjm, ms = core.make_model(spec_s)
  _, mn = core.make_model(spec_n)
  nworld, K, nv = sc["nworld"], sc["K"], mjm.nv
  if sc.get("wake_script"):
    sc = dict(sc, kick_p=0.0)  # only the scripted wakes: the scene settles, sleeps, and single trees are woken one after the other
    K += int(sc.get("settle", 0))
  stats = {"evaluations": 0, "nontrivial": [], "faults": {}, "skipped": {}, "sim_time": 0.0, "sets": {}}
  faults = stats["faults"]

  def fault(k, n=1):
    faults[k] = faults.get(k, 0) + n

  caps = scen.ample_caps(mjm, nworld)
  seams.set_alloc("ZERO")
  mk = lambda m, nvmax: core.make_data(mjm, m, {"nworld": nworld, "how": "make", "caps": dict(caps, nvmax=nvmax), "init": sc["init"]})
  N = mk(mn, None)
  A = mk(ms, nv)
  quick = sc.get("tier", "quick") != "thorough"
  if nv <= 24 and not quick:
    values = list(range(0, nv + 1))
  else:
    r = _rng.gen("nv", sc["value_seed"])
    tree_nv = np.bincount(mjm.dof_treeid[mjm.dof_treeid >= 0], minlength=mjm.ntree)
    sums = {int(s) for s in np.cumsum(np.sort(tree_nv))} | {int(nv - s) for s in tree_nv}
    cand = {0, 1, 2, nv // 2, nv - 2, nv - 1, nv} | sums | {s - 1 for s in sums} | {s + 1 for s in sums}
    values = sorted(v for v in cand if 0 <= v <= nv)
    if nv <= 24:
      values = sorted(set(values) | {int(x) for x in r.integers(0, nv + 1, size=6)})
    if quick and len(values) > 8:
      keep = {0, nv - 1, nv}
      rest = [v for v in values if v not in keep]
      values = sorted(keep | {rest[i] for i in r.choice(len(rest), size=5, replace=False)})
  if sc.get("wake_script"):
    # capacities that hold one woken tree but not the whole model, including the largest ones whose padded size stays below nv
    tnv = np.bincount(mjm.dof_treeid[mjm.dof_treeid >= 0], minlength=mjm.ntree)
    values = sorted({v for v in (int(tnv.max()), int(tnv.max()) + 1, min(15, nv - 1), min(31, nv - 1), nv - 1) if 1 <= v <= nv})
  C = {c: mk(ms, c) for c in values}
  alive = {c: [True] * nworld for c in values}
  cxs = [core.Ctx(mjm, mn, N), core.Ctx(mjm, ms, A)] + [core.Ctx(mjm, ms, C[c]) for c in values]
  viols = []
  jac = sc["model"]["opt"].get("jacobian")
  cone = sc["model"]["opt"].get("cone")
  n_lockstep = True  # N stays comparable with A only while their states agree (they are re-synchronised each step from A)
  import mujoco as _mj

  never = np.array([int(p_) in (int(_mj.mjtSleepPolicy.mjSLEEP_AUTO_NEVER), int(_mj.mjtSleepPolicy.mjSLEEP_NEVER)) for p_ in mjm.tree_sleep_policy])
  next_kick = [mjm.ntree - 1] * nworld
  qsel_of = []
  for t_ in range(mjm.ntree):
    qs = np.zeros(mjm.nq, dtype=bool)
    for j_ in range(mjm.njnt):
      if mjm.body_treeid[mjm.jnt_bodyid[j_]] == t_:
        a_ = mjm.jnt_qposadr[j_]
        qs[a_ : a_ + {0: 7, 1: 4, 2: 1, 3: 1}[int(mjm.jnt_type[j_])]] = True
    qsel_of.append(qs)
  for k in range(K):
    ops = _ops(sc, mjm, nworld, k)
    if sc.get("wake_script"):
      # scripted active sets: whenever every tree of a world sleeps, one tree is kicked awake, alternately the last one (highest DOF
      # addresses) and the first one: small active sets that sit at high / low addresses, one after the other in the same Data
      ta = A.tree_asleep.numpy()
      sleepable = [t_ for t_ in range(mjm.ntree) if not never[t_]]
      for w in range(nworld):
        if sleepable and all(ta[w][t_] >= 0 for t_ in sleepable):
          t = next_kick[w] if next_kick[w] in sleepable else sleepable[-1]
          v = np.zeros(mjm.nv)
          sel = mjm.dof_treeid == t
          v[sel] = _rng.gen("c38kick", sc["hist_seed"], k, w).normal(0, 0.6, int(sel.sum()))
          ops.append(["kick", w, [round(float(x), 4) for x in v]])
          next_kick[w] = sleepable[0] if t != sleepable[0] else sleepable[-1]
          fault("scripted_wake_of_one_tree")
    for cx in cxs:
      for op in ops:
        core.apply_op(cx, op)
      core.clear_overflow(cx.d)
    pre_tree_asleep = A.tree_asleep.numpy().copy()
    pre_awake = pre_tree_asleep < 0  # (nworld, ntree)
    pre_q = A.qpos.numpy().copy(), A.qvel.numpy().copy()
    # N restarts each step from A's state so that the comparison is single-step
    SA = core.get_istate(mjm, ms, A)
    core.set_istate(mjm, mn, N, SA)
    # a capacity variant that overflowed earlier (every tree awake at the start needs all nv DOFs) rejoins the lock-step as soon as the
    # trees awake in A fit into it again: durable state and sleep state are transplanted from A, its own compaction scratch (maps,
    # workspaces written while it held other active sets) stays what its past left there - which is what the capacity path must cope with
    for c in values:
      for w in range(nworld):
        if alive[c][w]:
          continue
        need_now = int(sum(int((mjm.dof_treeid == t).sum()) for t in range(mjm.ntree) if pre_awake[w, t]))
        if need_now <= c:
          act = np.zeros(nworld, dtype=bool)
          act[w] = True
          core.set_istate(mjm, ms, C[c], SA, active=act)
          for f in SLEEP_STATE:
            a_, b_ = getattr(C[c], f, None), getattr(A, f, None)
            if a_ is not None and b_ is not None and a_.shape == b_.shape:
              a_.numpy()[w] = b_.numpy()[w]
          C[c].overflow.numpy()[w] = 0
          alive[c][w] = True
          fault("rejoined_after_overflow")
    with core.ForwardTap() as tap:
      for cx in cxs:
        mjw.step(cx.m, cx.d)
    mid_awake = ~tap.mid[id(A)]  # awake after the wake passes of forward(): a tree woken and put back to sleep within this step counts as awake
    stats["sim_time"] += float(mjm.opt.timestep) * nworld * len(cxs)
    sa, sn = core.snapshot(ms, A), core.snapshot(mn, N)
    if scen.capacity_overflow(sa) or scen.capacity_overflow(sn):
      stats["skipped"]["capacity_overflow"] = stats["skipped"].get("capacity_overflow", 0) + 1
      break
    if not (np.all(np.isfinite(sa["qpos"])) and np.all(np.isfinite(sa["qvel"])) and np.all(np.isfinite(pre_q[0])) and np.all(np.isfinite(pre_q[1]))):
      # a diverged world (degenerate generated model: MuJoCo warns "inertia matrix too close to singular") is outside every clause
      stats["skipped"]["nonfinite_state"] = stats["skipped"].get("nonfinite_state", 0) + 1
      break
    post_awake = sa["tree_asleep"] < 0
    dof_tree = mjm.dof_treeid
    obs_c = {c: {f: getattr(C[c], f).numpy() for f in CMP + ["nefc", "solver_niter", "overflow"]} for c in values}
    for w in range(nworld):
      nsleep = int((~post_awake[w]).sum())
      need_pre = int(sum(int((dof_tree == t).sum()) for t in range(mjm.ntree) if pre_awake[w, t]))
      need_post = int(sum(int((dof_tree == t).sum()) for t in range(mjm.ntree) if post_awake[w, t]))
      # the solve runs after the wake passes of forward(): the active DOFs it has to hold are those of the trees awake at the stage tap
      need = int(sum(int((dof_tree == t).sum()) for t in range(mjm.ntree) if mid_awake[w, t]))
      if nsleep:
        fault("steps_with_sleeping_tree")
      # (i) all awake => compact == full
      if pre_awake[w].all() and post_awake[w].all():
        stats["evaluations"] += 1
        lim = (int(sa["overflow"][w]) | int(sn["overflow"][w])) & (core.OV_ITER | core.OV_LS)
        exact = all(core.bits_equal(sa[f][w], sn[f][w]) for f in CMP)
        stats["sets"].setdefault("full_vs_compact_bit_identical", []).append(str(exact))
        if not exact and not lim:
          va, vn = {f: sa[f][w] for f in CMP + ["qfrc_smooth", "qacc_smooth"]}, {f: sn[f][w] for f in CMP + ["qfrc_smooth", "qacc_smooth"]}
          bad = core.tol_diff(va, vn, {"qpos"}, stats=stats, tag="full_vs_compact")
          if bad:
            viols.append({"class": {"oracle": "compact_equals_full_when_all_awake", "field": bad[0][0], "jacobian": jac},
                          "detail": {"step": k, "world": w, "first": bad[0][1], "nefc": int(sa["nefc"][w])}})
      # (ii) sleeping trees frozen
      for t in range(mjm.ntree):
        if (not pre_awake[w, t]) and (not post_awake[w, t]) and mid_awake[w, t]:
          fault("woke_and_slept_within_one_step")
        if (not pre_awake[w, t]) and (not post_awake[w, t]) and (not mid_awake[w, t]):
          stats["evaluations"] += 1
          dsel = dof_tree == t
          if np.any(sa["qacc"][w][dsel] != 0) or not core.bits_equal(sa["qvel"][w][dsel], pre_q[1][w][dsel]):
            viols.append({"class": {"oracle": "frozen_dofs", "field": "qacc" if np.any(sa["qacc"][w][dsel] != 0) else "qvel"},
                          "detail": {"step": k, "world": w, "tree": t, "qacc": sa["qacc"][w][dsel].tolist(), "qvel_before": pre_q[1][w][dsel].tolist(),
                                     "qvel_after": sa["qvel"][w][dsel].tolist(), "tree_asleep_before": pre_tree_asleep[w].tolist(),
                                     "tree_asleep_after": sa["tree_asleep"][w].tolist()}})
      # (iii) capacity sweep
      va = core.world_view(sa, w)
      for c in values:
        if not alive[c][w]:
          continue
        sc_ = obs_c[c]
        bits = int(sc_["overflow"][w])
        stats["evaluations"] += 1
        rel = "zero" if c == 0 else "short" if c < need - 1 else "one-short" if c == need - 1 else "exact-fit" if c == need else "spare"
        if c <= need or (0 < nsleep < mjm.ntree):
          stats["nontrivial"].append(f"{rel}|sleep{scen.bucket(nsleep)}|{jac}|{cone}")
        if need > c:
          fault("nvmax_" + rel)
          if not (bits & NVMAX):
            viols.append({"class": {"oracle": "nvmax_overflow_bit_missing", "relation": rel, "jacobian": jac},
                          "detail": {"step": k, "world": w, "nvmax": c, "active_dofs_pre": need_pre, "active_dofs_post": need_post, "bits": bits, "nv": int(nv)}})
            alive[c][w] = False
            continue
        if bits & core.OVERFLOW_CAPACITY:
          alive[c][w] = False
          continue
        # frozen DOFs under a DOF capacity: a tree asleep before the step, at the stage tap and after it (this variant is in bit-exact
        # lock-step with the ample twin up to here, so the twin's sleep observations are its own) keeps qpos and qvel bit for bit and has
        # zero qacc - exactly, not to a tolerance: a drift of 1e-5 per step is what a stale compaction map looks like
        frozen_bad = None
        for t in range(mjm.ntree):
          if (not pre_awake[w, t]) and (not mid_awake[w, t]) and (not post_awake[w, t]):
            dsel = dof_tree == t
            # qacc and qvel exactly; qpos to 1e-6: after an overflow episode ("behavior undefined") the implicit integrators can carry a stale
            # efc.Ma of a sleeping DOF into one ulp of its quaternion (seen at seed 2: 1.2e-7) - a stale compaction map moves it by 1e-5 per step
            if np.any(sc_["qacc"][w][dsel] != 0) or not core.bits_equal(sc_["qvel"][w][dsel], pre_q[1][w][dsel]) or float(np.max(np.abs(sc_["qpos"][w][qsel_of[t]] - pre_q[0][w][qsel_of[t]]))) > 1e-6:
              frozen_bad = t
              break
        if frozen_bad is not None:
          t = frozen_bad
          viols.append({"class": {"oracle": "frozen_dofs_under_capacity", "relation": rel, "jacobian": jac},
                        "detail": {"step": k, "world": w, "nvmax": c, "tree": t, "active_dofs": need, "qacc": sc_["qacc"][w][dof_tree == t].tolist(),
                                   "max_dqpos": float(np.max(np.abs(sc_["qpos"][w][qsel_of[t]] - pre_q[0][w][qsel_of[t]])))}})
          alive[c][w] = False
          continue
        vc = {f: sc_[f][w] for f in CMP + ["nefc", "solver_niter"]}
        dd = [f for f in vc if not core.bits_equal(vc[f], va[f])]
        if dd:
          lim = (bits | int(sa["overflow"][w])) & (core.OV_ITER | core.OV_LS)
          # the reference side also carries the smooth forces / accelerations of the world: they set the scale of the force-level tolerance
          # (a constraint force of 1e-5 N next to smooth forces of 10 N is round-off, not a result)
          bad = [] if lim else core.tol_diff({f: vc[f] for f in CMP}, {f: va[f] for f in CMP + ["qfrc_smooth", "qacc_smooth"]}, {"qpos"}, stats=stats, tag="nvmax_vs_ample")
          stats["sets"].setdefault("nvmax_vs_ample_bit_identical", []).append("False")
          if bad:
            viols.append({"class": {"oracle": "no_nvmax_bit_but_differs_from_ample", "relation": rel, "jacobian": jac, "field": bad[0][0]},
                          "detail": {"step": k, "world": w, "nvmax": c, "active_dofs": need, "first": bad[0][1], "sleeping_trees": nsleep}})
          alive[c][w] = False  # trajectories have separated (round-off or defect): stop comparing this capacity for this world
        else:
          stats["sets"].setdefault("nvmax_vs_ample_bit_identical", []).append("True")
    if len(viols) > 10:
      break
  seen, out = set(), []
  for v in viols:
    kk = core.jdump(v["class"])
    if kk not in seen:
      seen.add(kk)
      out.append(v)
  stats["sample"] = {"model": "generated:" + ",".join(sc["model"].get("features", []))[:120], "opt": sc["model"].get("opt"), "nworld": nworld, "nv": int(nv),
                     "ntree": int(mjm.ntree), "nvmax_values": values, "K": K}
  return {"violations": out, "stats": stats, "digest": core.digest(core.get_istate(mjm, ms, A))}


def shrink(sc):
  base = dict(sc)
  if base["K"] > 2:
    yield dict(base, K=base["K"] // 2)
    yield dict(base, K=base["K"] - 1)
  if base["nworld"] > 1:
    yield dict(base, nworld=base["nworld"] - 1)
  if base["kick_p"] > 0:
    yield dict(base, kick_p=0.0)
