"""C23 - rotations stay valid along histories.

Invariant monitored after every step of long seeded histories (large angular velocities, time steps up to 20 ms, every
integrator, free/ball quaternions and mocap quaternions that start unnormalised by factors 1e-3 .. 1e3):
  * every free/ball quaternion in qpos has | |q| - 1 | <= 1e-5 after step();
  * xquat has unit norm; xmat, ximat, geom_xmat, site_xmat are proper rotations: max|R^T R - I| <= 1e-4 and det R > 0.
A run ends (counted) when the state becomes non-finite or a capacity overflow is reported.
"""

import numpy as np

from .. import core, scen, seams
from .. import rng as _rng

ID = "C23"
LEVEL = "exploration"
TIERS = {
  "quick": {"runs": 96, "chunk": 6, "budget_s": 420, "timeout_s": 300},
  "thorough": {"runs": 384, "chunk": 6, "budget_s": 1500, "timeout_s": 600},
}
RULE = ("one evaluation = the invariant checked on one world after one step; histories of 60-400 (quick) / up to 2000 (thorough) steps on "
        "generated models that contain free and ball joints, with seeded kicks of angular velocity up to 60 rad/s, timesteps in {2,5,10,20} ms, "
        "all four integrators, initial joint and mocap quaternions scaled by 1e-3..1e3; non-trivial = a step taken with some angular speed "
        "above 5 rad/s or directly after an unnormalised-quaternion injection; distinct = (integrator, timestep, joint kinds, injection "
        "kind, speed bucket) tuples")
ASSUMPTIONS = ["tolerances: quaternion norm 1e-5, rotation matrices 1e-4 (float32 products)", "runs stop at the first non-finite state (diverged "
               "simulation) or capacity overflow; those steps are not judged"]

MATS = ["xmat", "ximat", "geom_xmat", "site_xmat", "cam_xmat"]


def _accept(mjm):
  import mujoco

  return bool(np.any((mjm.jnt_type == mujoco.mjtJoint.mjJNT_FREE) | (mjm.jnt_type == mujoco.mjtJoint.mjJNT_BALL)))


def gen(seed, idx, tier):
  r = _rng.gen("c23", seed, idx)
  feats = {"free": True, "ball": True, "sleep": False}
  if r.random() < 0.5:
    feats["mocap"] = True
  feats["cameras"] = bool(_rng.gen("c23cam", seed, idx).random() < 0.5)  # camera frames in every tracking mode are reported orientations too
  spec, rejected = scen.pick_model(seed, idx, features=feats, size="s" if r.random() < 0.7 else "m", curated_p=0.1, accept=_accept, tries=30)
  spec["opt"]["integrator"] = str(r.choice(["euler", "implicitfast", "implicit", "rk4"]))
  spec["opt"]["timestep"] = float(r.choice([0.002, 0.005, 0.01, 0.02]))
  long = tier == "thorough"
  return {
    "property": ID, "seed": seed, "idx": idx, "model": spec, "nworld": int(r.choice([1, 2, 3])), "rejected_models": rejected,
    "init": {"seed": int(r.integers(1 << 30)), "pos_noise": 0.2, "vel_noise": 2.0},
    "hist_seed": int(r.integers(1 << 30)), "steps": int(r.integers(60, 2000 if long else 400)),
    "kick_p": float(r.choice([0.02, 0.05, 0.15])), "kick_w": float(r.choice([5.0, 20.0, 60.0])),
    "inject_p": float(r.choice([0.0, 0.02, 0.05])), "start_scale": float(r.choice([1.0, 1e-3, 0.3, 7.0, 1e3])),
  }  # fmt: skip


def _check(mjm, d, quat_adr, stats):
  qpos = d.qpos.numpy()
  if not (np.all(np.isfinite(qpos)) and np.all(np.isfinite(d.qvel.numpy()))):
    return None  # a world that has diverged to inf/NaN anywhere: nothing reported about it is a rotation any more (counted as skipped)
  out = []
  for w in range(qpos.shape[0]):
    for a in quat_adr:
      n = float(np.linalg.norm(qpos[w, a : a + 4].astype(np.float64)))
      if not np.isfinite(n):
        return None
      if abs(n - 1.0) > 1e-5:
        out.append(("qpos_quat_norm", {"world": w, "qposadr": int(a), "norm": n}))
  xq = d.xquat.numpy().astype(np.float64)
  if not np.all(np.isfinite(xq)):
    return None
  nq = np.linalg.norm(xq, axis=-1)
  if np.any(np.abs(nq - 1.0) > 1e-5):
    i = np.argwhere(np.abs(nq - 1.0) > 1e-5)[0]
    out.append(("xquat_norm", {"world": int(i[0]), "body": int(i[1]), "norm": float(nq[tuple(i)])}))
  for name in MATS:
    R = getattr(d, name).numpy().astype(np.float64)
    if R.size == 0:
      continue
    if not np.all(np.isfinite(R)):
      return None
    err = np.abs(np.einsum("...ji,...jk->...ik", R, R) - np.eye(3)).max(axis=(-1, -2))
    det = np.linalg.det(R)
    bad = (err > 1e-4) | (det <= 0)
    if np.any(bad):
      i = np.argwhere(bad)[0]
      out.append((name + "_not_rotation", {"world": int(i[0]), "index": int(i[1]), "orth_err": float(err[tuple(i)]), "det": float(det[tuple(i)])}))
  return out


def run(sc):
  import mujoco

  import mujoco_warp as mjw

  mjm, m = core.make_model(sc["model"])
  nworld = sc["nworld"]
  stats = {"evaluations": 0, "nontrivial": [], "faults": {}, "skipped": {}, "sim_time": 0.0, "sets": {}}
  faults = stats["faults"]
  caps = scen.ample_caps(mjm, nworld)
  seams.set_alloc("ZERO")
  d = core.make_data(mjm, m, {"nworld": nworld, "how": "make", "caps": caps, "init": sc["init"]})
  quat_adr, ang_dofs, kinds = [], [], set()
  for j in range(mjm.njnt):
    if mjm.jnt_type[j] == mujoco.mjtJoint.mjJNT_FREE:
      quat_adr.append(int(mjm.jnt_qposadr[j]) + 3)
      ang_dofs += list(range(int(mjm.jnt_dofadr[j]) + 3, int(mjm.jnt_dofadr[j]) + 6))
      kinds.add("free")
    elif mjm.jnt_type[j] == mujoco.mjtJoint.mjJNT_BALL:
      quat_adr.append(int(mjm.jnt_qposadr[j]))
      ang_dofs += list(range(int(mjm.jnt_dofadr[j]), int(mjm.jnt_dofadr[j]) + 3))
      kinds.add("ball")
  r = _rng.gen("c23run", sc["hist_seed"])
  injected = "none"
  if sc["start_scale"] != 1.0:
    qp = d.qpos.numpy()
    for a in quat_adr:
      qp[:, a : a + 4] *= sc["start_scale"]
    if mjm.nmocap:
      d.mocap_quat.numpy()[...] *= sc["start_scale"]
    injected = "start"
    faults["unnormalised_start"] = 1
    if r.random() < 0.5:
      d.qvel.numpy()[0, :] = 0.0  # world 0 starts at rest: unnormalised quaternions that nothing rotates
      faults["unnormalised_start_at_rest"] = 1
  viols = []
  key0 = f"{sc['model']['opt']['integrator']}|dt{sc['model']['opt']['timestep']}|{'+'.join(sorted(kinds))}"
  for k in range(sc["steps"]):
    just = injected if k == 0 else "none"
    if r.random() < sc["kick_p"] and ang_dofs:
      qv = d.qvel.numpy()
      w = int(r.integers(0, nworld))
      qv[w, ang_dofs] += r.normal(0, sc["kick_w"], len(ang_dofs)).astype(np.float32)
      faults["angular_kicks"] = faults.get("angular_kicks", 0) + 1
    if r.random() < sc["inject_p"] and quat_adr:
      w = int(r.integers(0, nworld))
      a = quat_adr[int(r.integers(0, len(quat_adr)))]
      d.qpos.numpy()[w, a : a + 4] *= np.float32(r.choice([1e-3, 0.5, 3.0, 1e3]))
      if r.random() < 0.5:
        # ... on a joint that is not rotating at all (angular velocity exactly zero): the integrator's quaternion update is then the
        # identity rotation, and whatever normalises must still do so
        ji = quat_adr.index(a)
        d.qvel.numpy()[w, ang_dofs[3 * ji : 3 * ji + 3]] = 0.0
        faults["unnormalised_with_zero_angular_velocity"] = faults.get("unnormalised_with_zero_angular_velocity", 0) + 1
      just = "midrun"
      faults["unnormalised_midrun"] = faults.get("unnormalised_midrun", 0) + 1
    if mjm.nmocap and r.random() < 0.05:
      d.mocap_quat.numpy()[int(r.integers(0, nworld)), 0] = r.normal(0, 1, 4).astype(np.float32) * np.float32(r.choice([1.0, 0.01, 50.0]))
      faults["mocap_quat_unnormalised"] = faults.get("mocap_quat_unnormalised", 0) + 1
    speed = float(np.abs(d.qvel.numpy()[:, ang_dofs]).max()) if ang_dofs else 0.0
    vmax = float(np.abs(d.qvel.numpy()).max()) if mjm.nv else 0.0
    if not np.isfinite(vmax) or vmax > 1e5:
      # a diverged world (velocities beyond 1e5 and growing, then inf/NaN): float32 overflow, not a statement about rotations
      stats["skipped"]["diverged_state"] = 1
      break
    mjw.step(m, d)
    stats["sim_time"] += float(mjm.opt.timestep) * nworld
    if scen.capacity_overflow(d):
      stats["skipped"]["capacity_overflow"] = 1
      break
    res = _check(mjm, d, quat_adr, stats)
    if res is None:
      stats["skipped"]["nonfinite_state"] = 1
      break
    stats["evaluations"] += nworld
    if speed > 5.0 or just != "none":
      stats["nontrivial"].append(f"{key0}|{just}|w{'>50' if speed > 50 else '>5' if speed > 5 else '<5'}")
    if res:
      name, info = res[0]
      viols.append({"class": {"oracle": "rotation_invariant", "what": name, "integrator": sc["model"]["opt"]["integrator"]},
                    "detail": dict(info, step=k + 1, after_injection=just, max_angular_speed=speed)})
      break
  stats["sample"] = {"model": sc["model"].get("path", "generated:" + ",".join(sc["model"].get("features", []))[:100]), "opt": sc["model"]["opt"], "nworld": nworld,
                     "steps": sc["steps"], "start_scale": sc["start_scale"], "kick_w": sc["kick_w"]}
  return {"violations": viols, "stats": stats, "digest": core.digest(core.get_istate(mjm, m, d))}


def shrink(sc):
  base = dict(sc)
  if base["steps"] > 1:
    yield dict(base, steps=max(1, base["steps"] // 2))
  if base["nworld"] > 1:
    yield dict(base, nworld=1)
  if base["kick_p"] > 0:
    yield dict(base, kick_p=0.0)
  if base["inject_p"] > 0:
    yield dict(base, inject_p=0.0)
  if base["start_scale"] != 1.0:
    yield dict(base, start_scale=1.0)
