"""C12 - the next step depends only on the integration state (crash/restart with only durable state surviving).

Source Data R lives through history H_R and yields durable state S (public get_state(INTEGRATION)).
P = a Data with an unrelated past (other initial state, contacts, resets, toggles; scratch filled with seeded
    garbage) that receives S through set_state.            -> "restart on a dirty node"
Q = a freshly created Data that receives S through set_state -> "restart on a clean node"
Oracle: forward() and K x step() give bit-identical observable Data (every per-world field, listed contacts, listed
constraint rows) on P and Q, as long as no capacity-overflow bit is reported.
"""

import numpy as np

from .. import core, scen, seams
from .. import rng as _rng

ID = "C12"
LEVEL = "exploration"
TIERS = {
  "quick": {"runs": 96, "chunk": 6, "budget_s": 420, "timeout_s": 300},
  "thorough": {"runs": 384, "chunk": 8, "budget_s": 1500, "timeout_s": 300},
}
RULE = ("one evaluation = one compared forward()/step() on the twin (dirty P, fresh Q) after transplanting the same integration "
        "state; runs are generated swarm-style from (seed, index): model (generated MJCF or curated file), options, nworld, "
        "histories, allocator patterns, capacities (ample or need+margin), make_data vs put_data; a case is non-trivial when the "
        "compared step had >=1 constraint row and P's pre-transplant Data differed from a fresh Data; distinct = distinct "
        "(solver/cone/jacobian/integrator, nefc bucket, contact bucket, allocator pattern, capacity mode, P-history kind) tuples")
ASSUMPTIONS = ["sleep-disabled models (as the property states)", "comparison stops at the first step that reports a capacity overflow bit",
               "P and Q are created with the same capacities (launch geometry identical)"]


def gen(seed, idx, tier):
  r = _rng.gen("c12", seed, idx)
  spec, rejected = scen.pick_model(seed, idx, features=scen.NOSLEEP, size="s" if r.random() < 0.7 else "m")
  nworld = int(r.choice([1, 2, 3]))
  sc = {
    "property": ID, "seed": seed, "idx": idx, "model": spec, "nworld": nworld, "rejected_models": rejected,
    "init_R": {"seed": int(r.integers(1 << 30)), "pos_noise": 0.1, "vel_noise": 0.5, "key": None},
    "init_P": {"seed": int(r.integers(1 << 30)), "pos_noise": 0.4, "vel_noise": 2.0, "key": None},
    "hist_R_seed": int(r.integers(1 << 30)), "hist_R_steps": int(r.integers(3, 40)),
    "hist_P_seed": int(r.integers(1 << 30)), "hist_P_steps": int(r.integers(1, 30)),
    "hist_P_reset": float(r.choice([0.0, 0.0, 0.2])),
    "alloc_P": [str(r.choice(["GARBAGE", "GARBAGE", "POISON"])), int(r.integers(1 << 30))],
    "alloc_Q": [str(r.choice(["ZERO", "POISON", "NATIVE"])), 0],
    "caps": str(r.choice(["ample", "ample", "tight"])),
    "how_P": str(r.choice(["make", "make", "put"])), "how_Q": str(r.choice(["make", "make", "put"])),
    "K": int(r.integers(2, 6)),
    "between": bool(r.random() < 0.5), "between_seed": int(r.integers(1 << 30)),
  }  # fmt: skip
  return sc


def _mk(mjm, m, how, nworld, caps, init, alloc):
  seams.set_alloc(*alloc)
  d = core.make_data(mjm, m, {"nworld": nworld, "how": how, "caps": caps, "init": init})
  return d


def run(sc):
  import mujoco_warp as mjw

  mjm, m = core.make_model(sc["model"])
  nworld = sc["nworld"]
  K = sc["K"]
  stats = {"evaluations": 0, "nontrivial": [], "faults": {}, "skipped": {}, "sim_time": 0.0, "sets": {}}
  faults = stats["faults"]

  def fault(k, n=1):
    faults[k] = faults.get(k, 0) + n

  # ---- source R: ample capacities, produces S, then keeps going to measure need
  seams.set_alloc("ZERO")
  ample = scen.ample_caps(mjm, nworld)
  R = core.make_data(mjm, m, {"nworld": nworld, "how": "make", "caps": ample, "init": sc["init_R"]})
  cx = core.Ctx(mjm, m, R)
  hist_R = sc.get("ops_R")
  if hist_R is None:
    hist_R = core.random_history(sc["hist_R_seed"], mjm, nworld, sc["hist_R_steps"])
  for op in hist_R:
    core.apply_op(cx, op)
  S = core.get_istate(mjm, m, R)
  if not np.all(np.isfinite(S)):
    return {"status": "ok", "violations": [], "stats": dict(stats, skipped={"nonfinite_state": 1})}
  between = []
  if sc.get("between"):
    between = [core.random_history(_rng.mix(sc["between_seed"], k), mjm, nworld, 1, rich=True)[:-1] for k in range(K)]
  caps = ample
  if sc["caps"] == "tight":
    core.clear_overflow(R)
    need = {"nacon": 0, "nefc": 0}
    for k in range(K):
      for op in between[k] if between else []:
        core.apply_op(cx, op)
      n1 = scen.measure_need(mjm, m, R)
      need = {a: max(need[a], n1[a]) for a in need}
    if not scen.capacity_overflow(R):
      caps = {"naconmax": need["nacon"] + 2, "njmax": need["nefc"] + 3}
      fault("tight_capacity")
  hist_P = sc.get("ops_P")
  # ---- P: dirty node
  how_P, how_Q = (sc["how_P"], sc["how_Q"]) if caps is ample else ("make", "make")  # put_data requires room for MuJoCo's own contacts
  P = _mk(mjm, m, how_P, nworld, caps, sc["init_P"], sc["alloc_P"])
  cp = core.Ctx(mjm, m, P)
  if hist_P is None:
    hist_P = core.random_history(sc["hist_P_seed"], mjm, nworld, sc["hist_P_steps"], p_reset=sc["hist_P_reset"])
  for op in hist_P:
    core.apply_op(cp, op)
  if scen.capacity_overflow(P):
    fault("overflow_in_P_history")
  if any(o[0] == "reset" for o in hist_P):
    fault("reset_in_P_history")
  fault("alloc_" + sc["alloc_P"][0])
  fault("transplant")
  pre_nacon = int(P.nacon.numpy()[0])
  # ---- Q: clean node
  Q = _mk(mjm, m, how_Q, nworld, caps, None, sc["alloc_Q"])
  cq = core.Ctx(mjm, m, Q)
  for d in (P, Q):
    core.set_istate(mjm, m, d, S)
    core.clear_overflow(d)
  viols = []

  def compare(tag, k):
    a, b = core.snapshot(m, P), core.snapshot(m, Q)
    if scen.capacity_overflow(a) or scen.capacity_overflow(b):
      stats["skipped"]["capacity_overflow"] = stats["skipped"].get("capacity_overflow", 0) + 1
      return False
    stats["evaluations"] += 1
    nefc, ncon = int(a["nefc"].max()), a["nacon"]
    if nefc > 0:
      stats["nontrivial"].append(f"{scen.opt_key(sc['model'])}|nefc{scen.bucket(nefc)}|con{scen.bucket(ncon)}|{sc['alloc_P'][0]}|{sc['caps']}|"
                                 f"{'reset' if any(o[0] == 'reset' for o in hist_P) else 'steps'}|{sc['how_P']}-{sc['how_Q']}")
    bad = []
    for name in a:
      if name.startswith("_"):
        continue
      if isinstance(a[name], np.ndarray):
        if not core.bits_equal(a[name], b[name]):
          bad.append((name, core.first_diff(a[name], b[name])))
      elif isinstance(a[name], dict):
        for f in a[name]:
          x, y = a[name][f], b[name][f]
          if name == "efc":
            # rows beyond nefc are not observable
            x, y = _rows(x, a, f), _rows(y, b, f)
          if not core.bits_equal(x, y):
            bad.append((name + "." + f, core.first_diff(x, y)))
      elif a[name] != b[name]:
        bad.append((name, {"a": a[name], "b": b[name]}))
    if bad:
      field = bad[0][0]
      viols.append({"class": {"oracle": "dirty_vs_fresh_bit_identity", "field": field, "after": tag},
                    "detail": {"step": k, "fields": [x[0] for x in bad][:12], "first": bad[0][1], "pre_transplant_nacon": pre_nacon}})
      return False
    return True

  def _rows(x, o, f):
    if f in ("J", "J_colind"):
      return np.zeros(0)  # compared through dense rows below
    n = o["nefc"]
    return np.concatenate([x[w, : min(int(n[w]), o["_njmax"])].ravel() for w in range(x.shape[0])]) if x.ndim >= 2 else x

  mjw.forward(m, P)
  mjw.forward(m, Q)
  ok = compare("forward", 0)
  if ok:
    ja = [core.efc_J_rows(core.snapshot(m, P), w) for w in range(nworld)]
    jb = [core.efc_J_rows(core.snapshot(m, Q), w) for w in range(nworld)]
    for w in range(nworld):
      if not core.bits_equal(ja[w], jb[w]):
        viols.append({"class": {"oracle": "dirty_vs_fresh_bit_identity", "field": "efc.J", "after": "forward"}, "detail": {"world": w}})
        ok = False
        break
  k = 0
  while ok and k < K:
    for op in between[k] if between else []:
      core.apply_op(cp, op)
      core.apply_op(cq, op)
    mjw.step(m, P)
    mjw.step(m, Q)
    stats["sim_time"] += float(mjm.opt.timestep) * nworld
    ok = compare("step", k + 1)
    k += 1
  stats["sample"] = {"model": sc["model"].get("path", "generated:" + ",".join(sc["model"].get("features", []))[:120]), "opt": sc["model"].get("opt"),
                     "nworld": nworld, "hist_P_ops": len(hist_P), "K": K, "caps": caps, "alloc": [sc["alloc_P"][0], sc["alloc_Q"][0]]}
  seams.set_alloc("NATIVE")
  return {"violations": viols, "stats": stats, "digest": core.digest(core.snapshot(m, Q))}


def shrink(sc):
  """Smaller scenarios: materialise histories as explicit op lists, ddmin them, simplify knobs."""
  import mujoco  # noqa: F401

  mjm, _ = core.make_model(sc["model"])
  base = dict(sc)
  if "ops_P" not in base:
    base["ops_P"] = core.random_history(sc["hist_P_seed"], mjm, sc["nworld"], sc["hist_P_steps"], p_reset=sc["hist_P_reset"])
  if "ops_R" not in base:
    base["ops_R"] = core.random_history(sc["hist_R_seed"], mjm, sc["nworld"], sc["hist_R_steps"])
  for cand in scen.ddmin_ops(base["ops_P"]):
    yield dict(base, ops_P=cand)
  for cand in scen.ddmin_ops(base["ops_R"]):
    yield dict(base, ops_R=cand)
  if base["K"] > 1:
    yield dict(base, K=base["K"] - 1)
  if base.get("between"):
    yield dict(base, between=False)
  if base["caps"] != "ample":
    yield dict(base, caps="ample")
  if base["alloc_P"][0] != "ZERO":
    yield dict(base, alloc_P=["ZERO", 0])
  if base["how_P"] != "make":
    yield dict(base, how_P="make")
  if base["how_Q"] != "make":
    yield dict(base, how_Q="make")
