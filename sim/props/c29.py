"""C29 - sleeping follows MuJoCo's sleep semantics (histories, count-down timers, waking kernels under schedules, bounded liveness).

Multi-tree scenes with sleeping enabled and a raised tolerance are driven through seeded histories (quiet phases in which
trees fall asleep; velocity kicks, applied forces, an awake body running into a sleeping one, mocap pushes).  Clause
monitors are fed with mujoco_warp's own per-step observations (they check the statement's implications; they are not a
second implementation of sleep.py):
  (i)    a tree asleep before the step, after the wake passes of forward() (stage tap) and after the step has bit-unchanged qpos and
         qvel, and zero qvel and qacc (a tree that is woken by a neighbour and put back to sleep with its island at the end of the same
         step was simulated awake: it is counted, not judged by this clause);
  (ii-a) a sleeping tree that receives applied force (xfrc/qfrc) or velocity is awake after the wake passes of the same step;
  (ii-b) a sleeping tree that wakes has a cause: user force/velocity, a reported contact with a tree that is awake, an active
         equality or limited tendon to an awake tree, or membership in the sleep cycle of a tree that has one;
  (vi)   sleep cycles stay well-formed circular lists: following tree_asleep from a sleeping tree visits sleeping trees only and
         returns to it;
  (ii-c) a tree that falls asleep was below the velocity tolerance (|dof_length*qvel| < tol) with no applied force at the
         beginning of the step, and so was every tree of its island;
  (iii)  bounded liveness: once inputs stop and every dof of a world stays below half the tolerance, all its (non-never)
         trees are asleep within MINAWAKE + 3 steps;
  (iv)   lock-step against MuJoCo C (state copied into MjData before every step): the asleep sets agree, except inside
         guard windows around threshold crossings (velocity within [0.5, 2] x tolerance during the last MINAWAKE + 2 steps) and
         around contact onsets; a disagreement must persist for more than 12 consecutive steps to count;
  (v)    the step executed with the sleep/island kernels under a permuted schedule gives the same asleep pattern.
"""

import numpy as np

from .. import core, scen, seams
from .. import rng as _rng

ID = "C29"
LEVEL = "exploration"
TIERS = {
  "quick": {"runs": 48, "chunk": 3, "budget_s": 400, "timeout_s": 400},
  "thorough": {"runs": 192, "chunk": 3, "budget_s": 1800, "timeout_s": 600},
}
RULE = ("one evaluation = one clause instance on one (world, tree, step) of a seeded history (60-220 steps) of a multi-tree scene with "
        "sleeping enabled; histories alternate quiet phases with kicks, applied forces on (possibly sleeping) trees and pushes by awake "
        "bodies; non-trivial = a step in which some tree of the world was asleep or changed its sleep state; distinct = (clause, transition "
        "kind in {stay-asleep, wake-by-user, wake-by-contact, wake-by-equality, fall-asleep, all-asleep}, number of trees bucket, jacobian, "
        "cone, schedule) tuples")
ASSUMPTIONS = ["clause (iv) is deliberately weak (persisting disagreement only, guarded windows): float32 vs float64 threshold crossings and "
               "MuJoCo's earlier broadphase-based waking make step-exact agreement unsound as an oracle (measured on the unchanged tree)",
               "clause (ii-c) uses the velocity measure |dof_length * qvel| of mujoco_warp's own state at the start of the step with a 1e-3 "
               "relative slack", "serial task orders only for (v)"]

SLEEP_KERNELS = ["sleep", "wake", "island", "awake", "_flood", "_tree", "_compact", "_update_sleep", "_sweep", "_build_cycles", "_check_island"]


class _MidTap:
  """Stage tap (seam S7): the asleep pattern right after forward() inside step(), i.e. after every wake pass and before the integrator and
  sleep(). Used to tell a tree that slept through the step from one that was woken and put back to sleep within it."""

  def __enter__(self):
    from mujoco_warp._src import forward as F

    self.F, self.orig, self.mid = F, F.forward, None
    rec = self

    def tapped(m, d):
      out = rec.orig(m, d)
      rec.mid = d.tree_asleep.numpy() >= 0
      return out

    F.forward = tapped
    return self

  def __exit__(self, *a):
    self.F.forward = self.orig


def _accept(mjm):
  return mjm.ntree >= 2 and mjm.nv <= 60


def gen(seed, idx, tier):
  r = _rng.gen("c29", seed, idx)
  feats = {"plane": True, "free": True, "dense_contacts": True, "tiny": False, "mocap": bool(r.random() < 0.3), "eq_weld": False,
           "eq_connect": bool(r.random() < 0.3), "eq_joint": False, "eq_tendon": False, "tendon_spatial": bool(r.random() < 0.2), "limits": True,
           "act": bool(r.random() < 0.3), "act_delay": False, "sensor_delay": False, "margin": False}
  if r.random() < 0.5:
    feats["pile"] = True
  spec, rejected = scen.pick_model(seed, idx, features=feats, size="s", curated_p=0.0, accept=_accept, tries=40)
  spec["opt"]["sleep"] = True
  spec["opt"]["solver"] = "newton"
  spec["opt"]["sleep_tolerance"] = float(r.choice([0.05, 0.3, 1.0]))
  spec["opt"]["integrator"] = str(r.choice(["euler", "implicitfast"]))
  spec["opt"]["disableflags"] = int(spec["opt"].get("disableflags", 0)) & ~262144
  return {
    "property": ID, "seed": seed, "idx": idx, "model": spec, "nworld": int(r.choice([1, 2])), "rejected_models": rejected,
    "init": {"seed": int(r.integers(1 << 30)), "pos_noise": 0.02, "vel_noise": 0.1},
    "hist_seed": int(r.integers(1 << 30)), "K": int(r.integers(60, 220)),
    "event_p": float(r.choice([0.01, 0.03, 0.06])), "sched": str(r.choice(["ASC", "ASC", "DESC", "PERM"])), "sched_key": int(r.integers(1 << 40)),
    "mujoco": bool(r.random() < 0.6),
  }  # fmt: skip


def run(sc):
  import mujoco

  import mujoco_warp as mjw

  mjm, m = core.make_model(sc["model"])
  nworld, K = sc["nworld"], sc["K"]
  ntree, nv = mjm.ntree, mjm.nv
  stats = {"evaluations": 0, "nontrivial": [], "faults": {}, "skipped": {}, "sim_time": 0.0, "sets": {}}
  faults = stats["faults"]

  def fault(k, n=1):
    faults[k] = faults.get(k, 0) + n

  caps = scen.ample_caps(mjm, nworld)
  seams.set_alloc("ZERO")
  d = core.make_data(mjm, m, {"nworld": nworld, "how": "make", "caps": caps, "init": sc["init"]})
  tol = float(mjm.opt.sleep_tolerance)
  dof_tree = mjm.dof_treeid
  dof_len = mjm.dof_length
  body_tree = mjm.body_treeid
  geom_tree = body_tree[mjm.geom_bodyid]
  minawake = int(mujoco.mjMINAWAKE)
  never = np.array([int(p) == int(mujoco.mjtSleepPolicy.mjSLEEP_AUTO_NEVER) or int(p) == int(mujoco.mjtSleepPolicy.mjSLEEP_NEVER) for p in mjm.tree_sleep_policy])
  # trees linked by equalities / tendons (static structure, conservative: any link counts as a possible wake cause)
  linked = np.zeros((ntree, ntree), dtype=bool)
  for e in range(mjm.neq):
    try:
      if mjm.eq_objtype[e] == mujoco.mjtObj.mjOBJ_BODY:
        a, b = body_tree[mjm.eq_obj1id[e]], body_tree[mjm.eq_obj2id[e]]
      elif mjm.eq_objtype[e] == mujoco.mjtObj.mjOBJ_SITE:
        a, b = body_tree[mjm.site_bodyid[mjm.eq_obj1id[e]]], body_tree[mjm.site_bodyid[mjm.eq_obj2id[e]]]
      else:
        a, b = -1, -1
      if a >= 0 and b >= 0:
        linked[a, b] = linked[b, a] = True
    except Exception:
      pass
  has_tendon = mjm.ntendon > 0
  r = _rng.gen("c29run", sc["hist_seed"])
  pol = seams.policy_from_spec({"default": [sc["sched"], sc["sched_key"]], "only": SLEEP_KERNELS}) if sc["sched"] != "ASC" else None
  mjd = mujoco.MjData(mjm) if (sc.get("mujoco") and nworld == 1) else None
  viols = []
  quiet_steps = np.zeros((nworld, ntree), dtype=int)  # consecutive steps each tree started below tolerance without applied force
  calm_world = np.zeros(nworld, dtype=int)  # consecutive steps with every dof below half the tolerance and no inputs
  near_thr = np.zeros((nworld, ntree), dtype=int)  # steps since a dof of the tree was within [0.5, 2] x tol
  disagree = np.zeros(ntree, dtype=int)
  key0 = f"nt{scen.bucket(ntree)}|{sc['model']['opt'].get('jacobian')}|{sc['model']['opt'].get('cone')}|{sc['sched']}"

  def viol(clause, kind, detail):
    viols.append({"class": {"oracle": "sleep_clause", "clause": clause, "kind": kind}, "detail": detail})

  force_until = {}
  dsel_of, qsel_of = [], []
  for t in range(ntree):
    dsel_of.append(dof_tree == t)
    qs = np.zeros(mjm.nq, dtype=bool)
    for j in range(mjm.njnt):
      if body_tree[mjm.jnt_bodyid[j]] == t:
        a = mjm.jnt_qposadr[j]
        qs[a : a + {0: 7, 1: 4, 2: 1, 3: 1}[int(mjm.jnt_type[j])]] = True
    qsel_of.append(qs)
  for k in range(K):
    # ---- inputs
    user = np.zeros((nworld, ntree), dtype=bool)
    kicked = np.zeros((nworld, ntree), dtype=bool)
    for w in range(nworld):
      if r.random() < sc["event_p"]:
        t = int(r.integers(0, ntree))
        sel = np.nonzero(dof_tree == t)[0]
        d.qvel.numpy()[w, sel] += r.normal(0, 1.5, sel.size).astype(np.float32)
        user[w, t] = True
        kicked[w, t] = True
        fault("kick")
      if r.random() < sc["event_p"]:
        bods = np.nonzero(body_tree >= 0)[0]
        jointless = np.array([bb for bb in bods if mjm.body_jntnum[bb] == 0], dtype=int)
        if jointless.size and r.random() < 0.5:
          bods = jointless  # a body rigidly attached to its parent: it belongs to the tree although no joint or dof is its own
          fault("xfrc_on_jointless_body")
        b = int(bods[int(r.integers(0, bods.size))])
        d.xfrc_applied.numpy()[w, b] = r.normal(0, 4.0, 6).astype(np.float32)
        force_until[(w, b)] = k + int(r.integers(1, 4))
        fault("xfrc_on_tree")
      for (ww, b), until in list(force_until.items()):
        if ww == w and k >= until:
          d.xfrc_applied.numpy()[w, b] = 0
          del force_until[(ww, b)]
      if mjm.nmocap and r.random() < sc["event_p"]:
        d.mocap_pos.numpy()[w, 0] += r.normal(0, 0.05, 3).astype(np.float32)
        fault("mocap_push")
    xf = d.xfrc_applied.numpy()
    qf = d.qfrc_applied.numpy()
    forced = np.zeros((nworld, ntree), dtype=bool)  # an applied force (not a velocity kick: a kicked tree may sleep if it stays below tolerance)
    for w in range(nworld):
      for t in range(ntree):
        if np.any(xf[w][body_tree == t] != 0) or np.any(qf[w][dof_tree == t] != 0):
          user[w, t] = True
          forced[w, t] = True
    pre_tree_asleep = d.tree_asleep.numpy().copy()
    pre_asleep = pre_tree_asleep >= 0
    pre_qpos, pre_qvel = d.qpos.numpy().copy(), d.qvel.numpy().copy()
    meas = np.abs(pre_qvel * dof_len[None, :])
    below = np.array([[bool(np.all(meas[w][dof_tree == t] < tol * (1 + 1e-3))) for t in range(ntree)] for w in range(nworld)])
    for w in range(nworld):
      for t in range(ntree):
        mm = meas[w][dof_tree == t]
        near_thr[w, t] = 0 if np.any((mm > 0.5 * tol) & (mm < 2.0 * tol)) else near_thr[w, t] + 1
        quiet_steps[w, t] = quiet_steps[w, t] + 1 if (below[w, t] and not user[w, t]) else 0
      calm_world[w] = calm_world[w] + 1 if (np.all(meas[w] < 0.5 * tol) and not user[w].any() and not mjm.nmocap) else 0
    if mjd is not None:
      mjd.qpos[:] = pre_qpos[0]
      mjd.qvel[:] = pre_qvel[0]
      mjd.xfrc_applied[:] = xf[0].reshape(-1, 6)
      if mjm.nmocap:
        mjd.mocap_pos[:] = d.mocap_pos.numpy()[0]
      if mjm.nu:
        mjd.ctrl[:] = d.ctrl.numpy()[0]
    if sc.get("_trace"):
      print("TRACE", k, d.tree_asleep.numpy().tolist(), "user", np.nonzero(user)[1].tolist(), flush=True)
    if sc.get("_dump_at") == k:  # debugging aid for replays: the complete pre-step Data of one step
      import dataclasses as _dc

      dump = {f.name: getattr(d, f.name).numpy() for f in _dc.fields(type(d)) if hasattr(getattr(d, f.name), "numpy")}
      for sub in ("efc", "contact"):
        so = getattr(d, sub)
        dump.update({sub + "." + f.name: getattr(so, f.name).numpy() for f in _dc.fields(type(so)) if hasattr(getattr(so, f.name), "numpy")})
      np.savez(sc["_dump_path"], **dump)
    # ---- the step (sleep / island kernels under the chosen schedule)
    seams.set_policy(pol)
    seams.reset_counters()
    try:
      with _MidTap() as tap:
        mjw.step(m, d)
    finally:
      seams.set_policy(None)
    mid_asleep = tap.mid if tap.mid is not None else (d.tree_asleep.numpy() >= 0)
    if pol is not None:
      fault("sleep_kernel_launches_" + sc["sched"], seams.S.permuted)
    stats["sim_time"] += float(mjm.opt.timestep) * nworld
    if scen.capacity_overflow(d) or not np.all(np.isfinite(d.qpos.numpy())):
      stats["skipped"]["overflow_or_nonfinite"] = 1
      break
    post_asleep = d.tree_asleep.numpy() >= 0
    qpos, qvel, qacc = d.qpos.numpy(), d.qvel.numpy(), d.qacc.numpy()
    nacon = int(d.nacon.numpy()[0])
    cg = d.contact.geom.numpy()[:nacon]
    cw = d.contact.worldid.numpy()[:nacon]
    island = d.tree_island.numpy()
    if mjd is not None:
      try:
        mujoco.mj_step(mjm, mjd)
      except Exception:  # the reference engine gave up on this state (mujoco.FatalError, e.g. rank-deficient Hessian): no lock-step from here on
        stats["skipped"]["mujoco_raised"] = stats["skipped"].get("mujoco_raised", 0) + 1
        mjd = None
    for w in range(nworld):
      any_sleep = pre_asleep[w].any() or post_asleep[w].any()
      touch = np.zeros((ntree, ntree), dtype=bool)
      for c in np.nonzero(cw == w)[0]:
        a, b = geom_tree[cg[c][0]], geom_tree[cg[c][1]]
        if a >= 0 and b >= 0:
          touch[a, b] = touch[b, a] = True
      # wake causes (ii-b): a direct cause (user input; a reported contact with a tree that is awake after the wake passes; a static
      # equality link or - conservatively - any tendon to such a tree), or membership in the pre-step sleep cycle of a tree with one
      awake_mid = ~mid_asleep[w]
      causes = [None] * ntree
      for t in range(ntree):
        others = np.arange(ntree) != t
        causes[t] = ("user" if user[w, t] else "contact" if np.any(touch[t] & awake_mid & others) else "equality" if np.any(linked[t] & awake_mid & others)
                     else "tendon" if has_tendon else None)
      for t in range(ntree):
        if pre_asleep[w, t] and causes[t] is None:
          u, hops = int(pre_tree_asleep[w, t]), 0
          while 0 <= u < ntree and u != t and hops <= ntree:
            if causes[u] not in (None, "cycle"):
              causes[t] = "cycle"
              break
            u, hops = int(pre_tree_asleep[w, u]), hops + 1
      # (vi) sleep cycles are well-formed circular lists: following the pointers from a sleeping tree visits sleeping trees only and
      # returns to it (a tree left outside the cycle it points into is not woken when that cycle is)
      post_ta = d.tree_asleep.numpy()[w]
      for t in range(ntree):
        if post_ta[t] >= 0:
          stats["evaluations"] += 1
          u, hops = int(post_ta[t]), 0
          while u != t and 0 <= u < ntree and post_ta[u] >= 0 and hops <= ntree:
            u, hops = int(post_ta[u]), hops + 1
          if u != t:
            viol("vi", "malformed_sleep_cycle", {"step": k, "world": w, "tree": t, "tree_asleep": post_ta.tolist(), "tree_asleep_pre": pre_tree_asleep[w].tolist(),
                                                 "tree_island": island[w].tolist()})
            break
      for t in range(ntree):
        dsel, qsel = dsel_of[t], qsel_of[t]
        pa, qa, ma = bool(pre_asleep[w, t]), bool(post_asleep[w, t]), bool(mid_asleep[w, t])
        if pa and qa and not ma:
          # woken by one of the wake passes of forward() and put back to sleep with its island at the end of the same step (a woken tree
          # inherits the count-down of the tree that woke it): it was simulated awake during this step, clause (i) does not apply
          fault("woke_and_slept_within_one_step")
        if pa and qa and ma:
          stats["evaluations"] += 1
          stats["nontrivial"].append(f"i|stay-asleep|{key0}")
          if not (core.bits_equal(qpos[w][qsel], pre_qpos[w][qsel]) and core.bits_equal(qvel[w][dsel], pre_qvel[w][dsel])):
            viol("i", "sleeping_tree_moved", {"step": k, "world": w, "tree": t, "max_dqpos": float(np.max(np.abs(qpos[w][qsel] - pre_qpos[w][qsel]))),
                                               "max_dqvel": float(np.max(np.abs(qvel[w][dsel] - pre_qvel[w][dsel]))), "user_input": bool(user[w, t]),
                                               "tree_asleep_pre": pre_tree_asleep[w].tolist(), "tree_asleep_post": d.tree_asleep.numpy()[w].tolist()})
          elif np.any(qvel[w][dsel] != 0) or np.any(qacc[w][dsel] != 0):
            viol("i", "sleeping_tree_nonzero_velocity_or_acceleration", {"step": k, "world": w, "tree": t, "qacc": qacc[w][dsel].tolist()})
        if pa and user[w, t]:
          stats["evaluations"] += 1
          stats["nontrivial"].append(f"ii-a|wake-by-user|{key0}")
          if ma:
            viol("ii-a", "user_input_did_not_wake", {"step": k, "world": w, "tree": t})
        if pa and not ma:
          stats["evaluations"] += 1
          cause = causes[t]
          stats["nontrivial"].append(f"ii-b|wake-by-{cause}|{key0}")
          fault("wake_" + str(cause))
          if cause is None and not mjm.nmocap:
            viol("ii-b", "woke_without_cause", {"step": k, "world": w, "tree": t, "touching": np.nonzero(touch[t])[0].tolist(), "awake_mid_step": np.nonzero(~mid_asleep[w])[0].tolist(),
                                                "tree_asleep_pre": pre_tree_asleep[w].tolist()})
        if (not pa) and qa:
          stats["evaluations"] += 1
          stats["nontrivial"].append(f"ii-c|fall-asleep|{key0}")
          fault("fell_asleep")
          stats["sets"].setdefault("quiet_steps_before_sleep", []).append(str(int(min(quiet_steps[w, t], 99))))
          if never[t]:
            viol("ii-c", "never_policy_tree_slept", {"step": k, "world": w, "tree": t})
          elif kicked[w, t] and not forced[w, t]:
            # sleep() judges the velocity at the end of the step; the monitor only knows the one at its start (the slept tree's velocity
            # is zeroed): in the step of a velocity kick the two differ by more than round-off, so this instance is counted, not judged
            fault("slept_in_the_step_of_a_kick_not_judged")
          elif not below[w, t] or forced[w, t]:
            viol("ii-c", "slept_while_moving_or_forced", {"step": k, "world": w, "tree": t, "measure_max": float(meas[w][dsel].max()), "tolerance": tol, "applied_force": bool(forced[w, t])})
          else:
            isl = island[w, t]
            mates = [u for u in range(ntree) if u != t and isl >= 0 and island[w, u] == isl]
            for u in mates:
              if not below[w, u] and not pre_asleep[w, u]:
                viol("ii-c", "slept_while_island_mate_moving", {"step": k, "world": w, "tree": t, "mate": u, "mate_measure": float(meas[w][dof_tree == u].max()), "tolerance": tol})
                break
      # (iii) bounded liveness
      if calm_world[w] > minawake + 3:
        stats["evaluations"] += 1
        awake_trees = [t for t in range(ntree) if not post_asleep[w, t] and not never[t]]
        if awake_trees:
          viol("iii", "calm_world_not_asleep_in_time", {"step": k, "world": w, "trees_awake": awake_trees, "calm_steps": int(calm_world[w]), "minawake": minawake})
        else:
          stats["nontrivial"].append(f"iii|all-asleep|{key0}")
      if any_sleep:
        fault("steps_with_sleeping_tree")
    # (iv) MuJoCo lock-step, persisting disagreement only
    if mjd is not None:
      mj_asleep = mjd.tree_asleep >= 0
      for t in range(ntree):
        guard = near_thr[0, t] <= minawake + 2
        if mj_asleep[t] != post_asleep[0, t] and not guard:
          disagree[t] += 1
        else:
          disagree[t] = 0
        stats["evaluations"] += 1
        if disagree[t] > 12:
          viol("iv", "persisting_disagreement_with_mujoco", {"step": k, "tree": t, "mujoco_asleep": bool(mj_asleep[t]), "mjwarp_asleep": bool(post_asleep[0, t]), "steps": int(disagree[t])})
          disagree[t] = 0
    if viols:
      break
  stats["sample"] = {"model": "generated:" + ",".join(sc["model"].get("features", []))[:100], "opt": sc["model"]["opt"], "nworld": nworld, "ntree": int(ntree), "K": K,
                     "sched": sc["sched"], "mujoco_lockstep": mjd is not None}
  seen, out = set(), []
  for v in viols:
    kk = core.jdump(v["class"])
    if kk not in seen:
      seen.add(kk)
      out.append(v)
  return {"violations": out, "stats": stats, "digest": core.digest(core.get_istate(mjm, m, d))}


def shrink(sc):
  base = dict(sc)
  if base["K"] > 2:
    yield dict(base, K=base["K"] // 2)
    yield dict(base, K=base["K"] - 1)
  if base["nworld"] > 1:
    yield dict(base, nworld=1)
  if base["sched"] != "ASC":
    yield dict(base, sched="ASC")
  if base.get("mujoco"):
    yield dict(base, mujoco=False)
