"""Reference interpreter of C36: run one target program alone in a fresh process and print its per-step digests."""

import json
import os
import sys


def main():
  here = os.path.dirname(os.path.dirname(os.path.abspath(__file__)))
  sys.path.insert(0, here)
  from sim import seams

  cache = os.environ.get("VERIF_CACHE", os.path.join(here, ".cache"))
  seams.install(os.path.join(cache, "wp-rel-" + os.environ.get("VERIF_SRC_HASH", "nohash")))
  import warnings

  warnings.filterwarnings("ignore")
  from sim.props import c36

  prog = json.load(open(sys.argv[1]))
  seams.set_alloc("ZERO")
  out = c36._execute(prog)
  print("DIGESTS " + json.dumps(out))


if __name__ == "__main__":
  main()
