"""Core harness: build Model/Data from specs, move durable state, observe, compare, interpret ops."""

import dataclasses
import hashlib
import json

import mujoco
import numpy as np
import warp as wp

import mujoco_warp as mjw
from mujoco_warp._src import types as T

from . import models as _models
from . import rng as _rng
from . import seams

INTEGRATION = int(T.State.INTEGRATION)
OVERFLOW_CAPACITY = 1 | 2 | 4 | 8 | 16 | 32 | 64 | 128 | 256  # every bit except ITERATIONS / LS_ITERATIONS
OV_ITER = 512
OV_LS = 1024

# Data fields that are per-world scratch of the compacted solver / island code: they are sized by
# capacities, are only partially (re)written each step and are not MuJoCo outputs.  They are never compared.
SCRATCH = {
  "cM", "cqLD", "crhs", "cx", "cJ", "cMa", "cqfrc_smooth", "cqacc_smooth", "cqacc_warmstart", "cqacc",
  "cqfrc_constraint", "cdof_dof", "dof_cdof", "ncdof", "map_efc2iefc", "map_iefc2efc", "efc_islandid",
  "island_dofadr", "island_idofadr", "island_nv", "island_nefc", "island_ne", "island_nf", "island_iefcadr", "map_dof2idof",
  "map_idof2dof", "dof_islandid", "dof_island", "nidof",  # written only by compute_island_mapping (ntree > 1); sized ntree / nv, only the first nisland / nidof entries are (re)written
  "qLU", "qfrc_inverse", "wrap_obj", "wrap_xpos", "body_awake_ind", "dof_awake_ind", "flex_aabb_min", "flex_aabb_max",
}  # fmt: skip
# written only when sleeping (and therefore island discovery) is enabled; otherwise they keep their creation-time values
ISLAND_FIELDS = {"nisland", "tree_island"}
AWAKE_FIELDS = {"ntree_awake", "nbody_awake", "nv_awake", "tree_awake", "body_awake", "tree_asleep"}
# storage of the inertia factorisation: which cells are meaningful depends on the block layout chosen at put_model
# (reciprocal diagonals are written only for compact/sparse blocks); errors in it surface in qacc_smooth
LAYOUT_FIELDS = {"qLDiagInv"}
DURABLE = ["time", "qpos", "qvel", "act", "history", "qacc_warmstart", "ctrl", "qfrc_applied", "xfrc_applied",
           "eq_active", "mocap_pos", "mocap_quat", "userdata"]  # fmt: skip
COUNTERS = ["solver_niter", "ne", "nf", "nl", "nefc", "nisland", "overflow"]
CONTACT_FIELDS = ["dist", "pos", "frame", "includemargin", "friction", "solref", "solreffriction", "solimp", "dim",
                  "geom", "flex", "elem", "vert", "type", "geomcollisionid"]  # fmt: skip
EFC_ROW_FIELDS = ["type", "id", "pos", "margin", "vel", "aref", "frictionloss", "force"]
EFC_PAD_FIELDS = ["D", "state"]

CONTACT_TYPE_MIN = int(T.ConstraintType.CONTACT_FRICTIONLESS)
_WORLD_FIELDS = None


def world_fields():
  """Names of Data array fields whose first dimension is nworld (excluding SCRATCH)."""
  global _WORLD_FIELDS
  if _WORLD_FIELDS is None:
    out = []
    for f in dataclasses.fields(T.Data):
      shape = getattr(f.type, "shape", None)
      if shape and shape[0] == "nworld" and f.name not in SCRATCH:
        out.append(f.name)
    _WORLD_FIELDS = out
  return _WORLD_FIELDS


# ---------------------------------------------------------------------------------------------------------------
# construction


class ModelRejected(ValueError):
  """put_model refused the model (documented unsupported input): outside the accepted input space of every property."""


def make_model(spec, batch_sizes=None):
  mjm = _models.load_mjm(spec)
  try:
    m = mjw.put_model(mjm, batch_sizes=batch_sizes) if batch_sizes else mjw.put_model(mjm)
  except (NotImplementedError, ValueError) as e:
    raise ModelRejected(f"{type(e).__name__}: {e}") from e
  for k, v in (spec.get("mopt") or {}).items():  # options that exist only on the warp side
    if k == "broadphase":
      v = T.BroadphaseType(v)
    elif k == "broadphase_filter":
      v = T.BroadphaseFilter(v)
    setattr(m.opt, k, v)
  return mjm, m


def initial_states(mjm, nworld, init):
  """Per-world (qpos, qvel, act, ctrl, mocap) from an init spec {key, seed, pos_noise, vel_noise, act_noise}."""
  init = init or {}
  mjd = mujoco.MjData(mjm)
  key = init.get("key")
  if key is not None and mjm.nkey > key:
    mujoco.mj_resetDataKeyframe(mjm, mjd, key)
  qpos0, qvel0, act0 = mjd.qpos.copy(), mjd.qvel.copy(), mjd.act.copy()
  out = []
  for w in range(nworld):
    r = _rng.gen("init", init.get("seed", 0), w)
    qpos = qpos0 + init.get("pos_noise", 0.0) * r.standard_normal(mjm.nq)
    # keep free-joint heights non-negative-ish so that scenes do not start in deep penetration
    for j in range(mjm.njnt):
      a = mjm.jnt_qposadr[j]
      if mjm.jnt_type[j] == mujoco.mjtJoint.mjJNT_FREE:
        qpos[a + 2] = max(qpos[a + 2], 0.02)
    mujoco.mj_normalizeQuat(mjm, qpos)
    qvel = qvel0 + init.get("vel_noise", 0.0) * r.standard_normal(mjm.nv)
    act = act0 + init.get("act_noise", 0.0) * r.standard_normal(mjm.na)
    out.append((qpos, qvel, act))
  return out


def make_data(mjm, m, dspec):
  """dspec: {nworld, how: make|put, caps: {...}, init: {...}}"""
  nworld = dspec.get("nworld", 1)
  caps = {k: v for k, v in (dspec.get("caps") or {}).items() if v is not None}
  if dspec.get("how", "make") == "put":
    mjd = mujoco.MjData(mjm)
    key = (dspec.get("init") or {}).get("key")
    if key is not None and mjm.nkey > key:
      mujoco.mj_resetDataKeyframe(mjm, mjd, key)
    if dspec.get("put_forward", True):
      try:
        mujoco.mj_forward(mjm, mjd)
      except Exception:  # mujoco.FatalError on a degenerate pose: load the un-forwarded MjData instead
        mjd = mujoco.MjData(mjm)
    try:
      d = mjw.put_data(mjm, mjd, nworld=nworld, **caps)
    except ValueError as e:
      if "overflow" not in str(e):
        raise
      d = mjw.make_data(mjm, nworld=nworld, **caps)  # MuJoCo's own contacts/rows do not fit the requested capacity
  else:
    d = mjw.make_data(mjm, nworld=nworld, **caps)
  if dspec.get("init") is not None:
    sts = initial_states(mjm, nworld, dspec["init"])
    qp, qv, ac = d.qpos.numpy(), d.qvel.numpy(), d.act.numpy()
    for w, (qpos, qvel, act) in enumerate(sts):
      qp[w] = qpos
      qv[w] = qvel
      if mjm.na:
        ac[w] = act
  return d


# ---------------------------------------------------------------------------------------------------------------
# durable state via the public get_state / set_state


def state_size(mjm, sig=INTEGRATION):
  return mujoco.mj_stateSize(mjm, sig)


def get_istate(mjm, m, d, sig=INTEGRATION):
  out = wp.zeros((d.nworld, state_size(mjm, sig)), dtype=float)
  mjw.get_state(m, d, out, sig)
  return out.numpy().copy()


def set_istate(mjm, m, d, arr, sig=INTEGRATION, active=None):
  st = wp.array(np.ascontiguousarray(arr, dtype=np.float32), dtype=float)
  if active is None:
    mjw.set_state(m, d, st, sig)
  else:
    mjw.set_state(m, d, st, sig, wp.array(np.asarray(active, dtype=bool), dtype=bool))


def clear_overflow(d):
  d.overflow.zero_()


# ---------------------------------------------------------------------------------------------------------------
# observation


def _np(a):
  return a.numpy().copy()


def sleep_enabled(m):
  return bool(m.opt.enableflags & T.EnableBit.SLEEP) and not bool(m.opt.disableflags & T.DisableBit.ISLAND)


def live_fields(m):
  """Per-world fields that step()/forward() (re)compute for this model's configuration."""
  skip = set(LAYOUT_FIELDS)
  if not sleep_enabled(m):
    skip |= ISLAND_FIELDS | AWAKE_FIELDS
  return [f for f in world_fields() if f not in skip]


def snapshot(m, d, fields=None):
  """Copy of every live per-world Data field + contacts (first nacon) + efc rows."""
  obs = {}
  for name in fields or live_fields(m):
    a = getattr(d, name)
    obs[name] = _np(a)
  nacon = int(min(d.nacon.numpy()[0], d.naconmax))
  obs["nacon"] = nacon
  obs["ncollision"] = int(d.ncollision.numpy()[0])
  c = {}
  for f in CONTACT_FIELDS + ["worldid", "efc_address"]:
    c[f] = getattr(d.contact, f).numpy()[:nacon].copy()
  obs["contact"] = c
  e = {}
  for f in EFC_ROW_FIELDS + EFC_PAD_FIELDS:
    e[f] = _np(getattr(d.efc, f))
  e["J"] = _np(d.efc.J)
  if m.is_sparse:
    e["J_rownnz"] = _np(d.efc.J_rownnz)
    e["J_rowadr"] = _np(d.efc.J_rowadr)
    e["J_colind"] = _np(d.efc.J_colind)
  obs["efc"] = e
  obs["_sparse"] = bool(m.is_sparse)
  obs["_nv"] = int(m.nv)
  obs["_njmax"] = int(d.njmax)
  obs["_naconmax"] = int(d.naconmax)
  obs["_nacon_raw"] = int(d.nacon.numpy()[0])
  obs["_dt"] = [float(x) for x in np.asarray(m.opt.timestep.numpy()).ravel()]  # per-world timestep (batchable option)
  return obs


def efc_J_rows(obs, w, n=None):
  """Dense (nefc, nv) Jacobian of world w."""
  e = obs["efc"]
  nv = obs["_nv"]
  nefc = int(min(obs["nefc"][w], obs["_njmax"])) if n is None else n
  out = np.zeros((nefc, nv), dtype=np.float32)
  if obs["_sparse"]:
    J, ci = e["J"][w, 0], e["J_colind"][w, 0]
    for r in range(nefc):
      a, k = int(e["J_rowadr"][w, r]), int(e["J_rownnz"][w, r])
      if a < 0 or k < 0 or a + k > J.shape[0]:
        out[r] = np.nan
        continue
      np.add.at(out[r], ci[a : a + k], J[a : a + k])
  else:
    out[:] = e["J"][w, :nefc, :nv]
  return out


def world_view(obs, w, contacts=True, efc=True):
  """Everything observable about world w, as a flat dict name -> ndarray (listing order preserved)."""
  v = {}
  for name, a in obs.items():
    if isinstance(a, np.ndarray) and not name.startswith("_"):
      v[name] = a[w]
  if "actuator_moment" in v and "moment_rowadr" in v:
    # rows of the sparse actuator moment are allocated with an atomic counter: the layout depends on thread order, the matrix does not
    nu, nv = v["moment_rowadr"].shape[0], obs["_nv"]
    dense = np.zeros((nu, nv), dtype=np.float32)
    am, ci = v["actuator_moment"], v["moment_colind"]
    for a in range(nu):
      adr, nnz = int(v["moment_rowadr"][a]), int(v["moment_rownnz"][a])
      if 0 <= adr and 0 <= nnz and adr + nnz <= am.shape[0]:
        np.add.at(dense[a], ci[adr : adr + nnz], am[adr : adr + nnz])
      else:
        dense[a] = np.nan
    v["actuator_moment"] = dense
    for k in ("moment_rowadr", "moment_rownnz", "moment_colind"):
      v["_layout." + k] = v.pop(k)
  if "_dt" in obs:  # not an output: only read by tol_diff (velocity tolerance), skipped by every comparison
    v["_dt"] = np.array([obs["_dt"][w % len(obs["_dt"])]], dtype=np.float64)
  if contacts:
    c = obs["contact"]
    sel = c["worldid"] == w
    for f in CONTACT_FIELDS:
      if c[f].shape[0] == sel.shape[0]:
        v["contact." + f] = c[f][sel]
    v["contact.count"] = np.array([int(sel.sum())])
  if efc:
    e = obs["efc"]
    nefc = int(min(obs["nefc"][w], obs["_njmax"]))
    for f in EFC_ROW_FIELDS + EFC_PAD_FIELDS:
      v["efc." + f] = e[f][w, :nefc]
    # contact rows carry the index of their contact in the shared contact buffer, which legitimately depends on how many
    # contacts the other worlds emitted: canonicalise to the rank of the contact among this world's contacts
    ids = v["efc.id"].copy()
    crow = v["efc.type"] >= CONTACT_TYPE_MIN
    if crow.any():
      c = obs["contact"]
      mine = np.nonzero(c["worldid"] == w)[0]
      rank = {int(g): r for r, g in enumerate(mine)}
      ids[crow] = [rank.get(int(g), -1000 - int(g)) for g in ids[crow]]
    v["efc.id"] = ids
    v["efc.J"] = efc_J_rows(obs, w)
  return v


def bits_equal(a, b):
  """Bit equality of two ndarrays (NaN == NaN with same payload, -0 != +0 is relaxed: +0 == -0 accepted)."""
  if a.shape != b.shape or a.dtype != b.dtype:
    return False
  if a.dtype.kind == "f":
    return bool(np.all((a == b) | (np.isnan(a) & np.isnan(b))))
  return bool(np.array_equal(a, b))


def first_diff(a, b):
  if a.shape != b.shape:
    return {"shape": [list(a.shape), list(b.shape)]}
  if a.dtype.kind == "f":
    bad = ~((a == b) | (np.isnan(a) & np.isnan(b)))
  else:
    bad = a != b
  idx = np.argwhere(bad)
  if idx.size == 0:
    return None
  i = tuple(int(x) for x in idx[0])
  return {"index": list(i), "a": _js(a[i]), "b": _js(b[i]), "count": int(bad.sum())}


def _js(x):
  try:
    return float(x) if np.ndim(x) == 0 else np.asarray(x).tolist()
  except Exception:
    return str(x)


def diff_views(va, vb, skip=()):
  """List of (field, first_diff) for fields differing bitwise between two world views."""
  out = []
  for k in va:
    if k in skip or k not in vb or k == "_dt":
      continue
    if not bits_equal(va[k], vb[k]):
      out.append((k, first_diff(va[k], vb[k])))
  return out


def digest(obs_or_view):
  h = hashlib.sha256()

  def upd(x, name):
    h.update(name.encode())
    if isinstance(x, np.ndarray):
      h.update(str(x.dtype).encode() + str(x.shape).encode())
      h.update(np.ascontiguousarray(x).tobytes())
    elif isinstance(x, dict):
      for k in sorted(x):
        upd(x[k], name + "." + k)
    else:
      h.update(repr(x).encode())

  upd(obs_or_view, "")
  return h.hexdigest()[:16]


# ---------------------------------------------------------------------------------------------------------------
# ops


class Ctx:
  def __init__(self, mjm, m, d):
    self.mjm, self.m, self.d = mjm, m, d


def _worlds(d, w):
  return range(d.nworld) if w is None or w < 0 else [w]


def apply_op(cx, op):
  """Interpret one op on cx.d. Returns None."""
  m, d, mjm = cx.m, cx.d, cx.mjm
  k = op[0]
  if k == "step":
    for _ in range(op[1] if len(op) > 1 else 1):
      mjw.step(m, d)
  elif k == "forward":
    mjw.forward(m, d)
  elif k == "step1":
    mjw.step1(m, d)
  elif k == "step2":
    mjw.step2(m, d)
  elif k == "ctrl":
    if mjm.nu:
      a = d.ctrl.numpy()
      for w in _worlds(d, op[1]):
        a[w] = np.resize(np.asarray(op[2], dtype=np.float32), mjm.nu)
  elif k == "qfrc":
    a = d.qfrc_applied.numpy()
    for w in _worlds(d, op[1]):
      a[w] = np.resize(np.asarray(op[2], dtype=np.float32), mjm.nv)
  elif k == "xfrc":
    a = d.xfrc_applied.numpy()
    for w in _worlds(d, op[1]):
      a[w, op[2] % mjm.nbody] = np.asarray(op[3], dtype=np.float32)
  elif k == "mocap":
    if mjm.nmocap:
      p, q = d.mocap_pos.numpy(), d.mocap_quat.numpy()
      for w in _worlds(d, op[1]):
        p[w, op[2] % mjm.nmocap] = np.asarray(op[3], dtype=np.float32)
        q[w, op[2] % mjm.nmocap] = np.asarray(op[4], dtype=np.float32)
  elif k == "eq":
    if mjm.neq:
      a = d.eq_active.numpy()
      for w in _worlds(d, op[1]):
        a[w, op[2] % mjm.neq] = bool(op[3])
  elif k == "userdata":
    if mjm.nuserdata:
      a = d.userdata.numpy()
      for w in _worlds(d, op[1]):
        a[w] = np.resize(np.asarray(op[2], dtype=np.float32), mjm.nuserdata)
  elif k == "kick":
    a = d.qvel.numpy()
    for w in _worlds(d, op[1]):
      a[w] += np.resize(np.asarray(op[2], dtype=np.float32), mjm.nv)
  elif k == "act":
    if mjm.na:
      a = d.act.numpy()
      for w in _worlds(d, op[1]):
        a[w] = np.resize(np.asarray(op[2], dtype=np.float32), mjm.na)
  elif k == "reset":
    mask = op[1] if len(op) > 1 else None
    if mask is None:
      mjw.reset_data(m, d)
    else:
      dt = op[2] if len(op) > 2 else "bool"
      arr = wp.array(np.asarray(mask, dtype=bool), dtype=bool) if dt == "bool" else wp.array(np.asarray(mask, dtype=np.int32), dtype=int)
      mjw.reset_data(m, d, arr)
  elif k == "reset_key":
    key = op[1]
    if isinstance(key, list):
      mjw.reset_data_keyframe(m, d, wp.array(np.asarray(key, dtype=np.int32), dtype=int))
    else:
      mjw.reset_data_keyframe(m, d, int(key))
  elif k == "opt":
    setattr(m.opt, op[1], op[2])
  elif k == "clear_overflow":
    clear_overflow(d)
  else:
    raise ValueError(f"unknown op {op!r}")


def random_history(seed, mjm, nworld, nsteps, p_reset=0.0, rich=True):
  """A seeded op list: per-world piecewise-constant controls, impulses, toggles, steps."""
  r = _rng.gen("hist", seed)
  ops = []
  left = nsteps
  fl = lambda a: [round(float(x), 4) for x in a]
  while left > 0:
    for w in range(nworld):
      if mjm.nu and r.random() < 0.7:
        ops.append(["ctrl", w, fl(r.uniform(-1, 1, mjm.nu))])
      if rich and r.random() < 0.15:
        ops.append(["qfrc", w, fl(r.normal(0, 1.0, mjm.nv) * (r.random(mjm.nv) < 0.3))])
      if rich and r.random() < 0.15:
        ops.append(["xfrc", w, int(r.integers(1, max(2, mjm.nbody))), fl(r.normal(0, 2.0, 6))])
      if rich and mjm.neq and r.random() < 0.1:
        ops.append(["eq", w, int(r.integers(0, mjm.neq)), bool(r.random() < 0.5)])
      if rich and mjm.nmocap and r.random() < 0.2:
        q = r.normal(0, 1, 4)
        q /= np.linalg.norm(q)
        ops.append(["mocap", w, 0, fl(r.uniform(-0.4, 0.4, 3) + np.array([0, 0, 0.3])), fl(q)])
      if rich and mjm.nuserdata and r.random() < 0.1:
        ops.append(["userdata", w, fl(r.normal(0, 1, mjm.nuserdata))])
      if rich and r.random() < 0.05:
        ops.append(["kick", w, fl(r.normal(0, 0.5, mjm.nv))])
    if p_reset and r.random() < p_reset:
      ops.append(["reset", [bool(r.random() < 0.5) for _ in range(nworld)]])
    n = int(min(left, r.integers(1, 8)))
    ops.append(["step", n])
    left -= n
  return ops


def jdump(x):
  return json.dumps(x, sort_keys=True, default=_jsd)


def _jsd(o):
  if isinstance(o, np.generic):
    return o.item()
  if isinstance(o, np.ndarray):
    return o.tolist()
  raise TypeError(type(o))


# ---------------------------------------------------------------------------------------------------------------
# canonical (listing-order independent) view of one world, and tolerance comparison


def canon_view(obs, w):
  """world_view with contacts and constraint rows put in a canonical order (keyed multisets, DESIGN A3)."""
  v = world_view(obs, w)
  n = int(v["contact.count"][0])
  if n:
    g = v["contact.geom"]
    key = np.lexsort((np.round(v["contact.dist"].astype(np.float64), 5), v["contact.geomcollisionid"], g[:, 1], g[:, 0]))
  else:
    key = np.zeros(0, dtype=int)
  for f in CONTACT_FIELDS:
    if "contact." + f in v and v["contact." + f].shape[0] == n:
      v["contact." + f] = v["contact." + f][key]
  rank_of_listing = np.empty(n, dtype=int)
  rank_of_listing[key] = np.arange(n)
  # rows: efc.id of contact rows currently holds the listing rank of the contact (see world_view)
  t = v["efc.type"]
  ids = v["efc.id"].copy()
  crow = t >= CONTACT_TYPE_MIN
  ok = crow & (ids >= 0) & (ids < n)
  ids[ok] = rank_of_listing[ids[ok]]
  order = np.lexsort((np.arange(t.shape[0]), ids, t))  # stable within one (type, id) block
  for f in EFC_ROW_FIELDS + EFC_PAD_FIELDS + ["J"]:
    v["efc." + f] = v["efc." + f][order]
  v["efc.id"] = ids[order]
  return v


# sampled sensor values are differences of large body-level quantities: their error scales with those, not with the sample itself
_GF = ("qfrc_smooth", "qfrc_bias", "qfrc_constraint", "qfrc_actuator", "qfrc_passive")
_GA = ("qacc", "qacc_smooth")
SCALE_WITH = {"history": ("sensordata", "cfrc_int", "cacc", "qfrc_constraint"), "sensordata": ("cfrc_int", "cacc", "qfrc_constraint"),
              "qfrc_constraint": _GF, "qfrc_smooth": _GF, "qfrc_bias": _GF, "qfrc_actuator": _GF, "qfrc_passive": _GF, "qfrc_spring": _GF,
              "qfrc_damper": _GF, "qfrc_gravcomp": _GF, "qfrc_fluid": _GF, "efc.force": _GF, "qacc": _GA, "qacc_smooth": _GA,
              "qacc_warmstart": _GA, "act_dot": ("act",), "cfrc_ext": ("cfrc_int",), "efc.aref": ("efc.aref", "qacc_smooth"),
              "efc.vel": ("qvel",)}


def tol_diff(va, vb, state_level, rtol_state=1e-4, rtol_force=5e-3, atol=1e-5, skip=(), exact_int=(), stats=None, tag="tol"):
  """Fields of va that differ from vb beyond tolerance. Returns list of (field, info)."""
  bad = []
  worst = 0.0
  dt = float(vb["_dt"][0]) if "_dt" in vb else 0.0
  for k in va:
    if k in skip or k not in vb or k == "_dt":
      continue
    x, y = va[k], vb[k]
    if x.shape != y.shape:
      bad.append((k, {"shape": [list(x.shape), list(y.shape)]}))
      continue
    if x.dtype.kind != "f":
      if k in exact_int and not np.array_equal(x, y):
        bad.append((k, first_diff(x, y)))
      continue
    if x.size == 0:
      continue
    xf, yf = x.astype(np.float64), y.astype(np.float64)
    fx, fy = np.isfinite(xf), np.isfinite(yf)
    if not np.array_equal(fx, fy):
      i = tuple(int(q) for q in np.argwhere(fx != fy)[0])
      bad.append((k, {"nonfinite": True, "index": list(i), "a": _js(x[i]), "b": _js(y[i])}))
      continue
    if not fx.all():
      xf, yf = np.where(fx, xf, 0.0), np.where(fy, yf, 0.0)
    rt = rtol_state if k in state_level else rtol_force
    scale = float(np.max(np.abs(yf)))
    for other in SCALE_WITH.get(k, ()):
      if other in vb and vb[other].size and vb[other].dtype.kind == "f":
        o = vb[other].astype(np.float64)
        scale = max(scale, float(np.max(np.abs(np.where(np.isfinite(o), o, 0.0)))))
    tol = atol + rt * max(1e-3, scale)
    if k == "qvel" and dt and "qacc" in vb and vb["qacc"].size and "qacc" not in skip:
      # the next velocity is qvel + dt * qacc: whatever is accepted on the acceleration (force-level tolerance, scaled with the
      # accelerations of this world) is accepted, times dt, on the velocity
      sq = 0.0
      for other in ("qacc", "qacc_smooth"):
        if other in vb and vb[other].size:
          o = vb[other].astype(np.float64)
          sq = max(sq, float(np.max(np.abs(np.where(np.isfinite(o), o, 0.0)))))
      tol = max(tol, dt * (atol + rtol_force * max(1e-3, sq)))
    if k == "qpos" and dt and "qacc" in vb and vb["qacc"].size and "qacc" not in skip and "qvel" in vb and vb["qvel"].size:
      # ... and the next position is qpos + dt * (next qvel): dt times what is accepted on the velocity
      sq = 0.0
      for other in ("qacc", "qacc_smooth"):
        if other in vb and vb[other].size:
          o = vb[other].astype(np.float64)
          sq = max(sq, float(np.max(np.abs(np.where(np.isfinite(o), o, 0.0)))))
      qv = vb["qvel"].astype(np.float64)
      sv = float(np.max(np.abs(np.where(np.isfinite(qv), qv, 0.0))))
      tol_v = max(atol + rtol_state * max(1e-3, sv), dt * (atol + rtol_force * max(1e-3, sq)))
      tol = max(tol, dt * tol_v)
    err = float(np.max(np.abs(xf - yf)))
    worst = max(worst, err / tol)
    if err > tol:
      i = tuple(int(q) for q in np.unravel_index(int(np.argmax(np.abs(xf - yf))), xf.shape))
      bad.append((k, {"err": err, "tol": tol, "index": list(i), "a": _js(x[i]), "b": _js(y[i])}))
  if stats is not None:
    key = tag + "_worst_err_over_tol_x1000"
    stats["faults"][key] = max(stats["faults"].get(key, 0), int(worst * 1000))
  return bad


STATE_LEVEL = {"qpos", "qvel", "act", "time", "xpos", "xquat", "xmat", "xipos", "ximat", "geom_xpos", "geom_xmat", "site_xpos", "site_xmat",
               "cam_xpos", "cam_xmat", "light_xpos", "light_xdir", "subtree_com", "cinert", "cdof", "ten_length", "actuator_length",
               "ctrl", "mocap_pos", "mocap_quat", "userdata", "qfrc_applied", "xfrc_applied", "xanchor", "xaxis", "ten_J", "actuator_moment",
               "crb", "M", "contact.dist", "contact.pos", "contact.frame", "contact.includemargin", "contact.friction", "contact.solref",
               "contact.solreffriction", "contact.solimp", "efc.pos", "efc.margin", "efc.J", "energy", "flexvert_xpos"}


class ForwardTap:
  """Stage tap (seam S7): the asleep pattern of every Data right after forward() inside step(), i.e. after every wake pass and before
  the integrator and sleep(). Tells a tree that slept through a step from one that was woken and put back to sleep within it.
  mid[id(d)] is the (nworld, ntree) bool array of the last forward() on d. Used to scope oracles, never to decide."""

  def __enter__(self):
    from mujoco_warp._src import forward as F

    self.F, self.orig, self.mid = F, F.forward, {}
    rec = self

    def tapped(m, d):
      out = rec.orig(m, d)
      rec.mid[id(d)] = d.tree_asleep.numpy() >= 0
      return out

    F.forward = tapped
    return self

  def __exit__(self, *a):
    self.F.forward = self.orig


class StageNeed:
  """Stage tap (seam S7): records the capacity need after every forward() executed inside a public op, so that the need of
  intermediate Runge-Kutta stages is seen too. Used to measure, never to decide."""

  def __init__(self):
    self.nefc = None
    self.nacon = 0
    self.ncollision = 0
    self.calls = 0
    self.collision_calls = 0

  def __enter__(self):
    from mujoco_warp._src import forward as F

    self._F = F
    self._orig = F.forward
    rec = self

    def tapped(m, d):
      out = rec._orig(m, d)
      n = d.nefc.numpy()
      rec.nefc = n.copy() if rec.nefc is None else np.maximum(rec.nefc, n)
      rec.nacon = max(rec.nacon, int(d.nacon.numpy()[0]))
      rec.ncollision = max(rec.ncollision, int(d.ncollision.numpy()[0]))
      rec.calls += 1
      return out

    F.forward = tapped
    # with sleeping enabled fwd_position runs two collision passes and the second one restarts the broadphase pair counter: the need of
    # the contact buffer is the maximum over every pass, so the pass itself is tapped as well
    from mujoco_warp._src import collision_driver as CD

    self._CD = CD
    self._orig_col = CD.collision

    def tapped_col(m, d, *a, **k):
      out = rec._orig_col(m, d, *a, **k)
      rec.ncollision = max(rec.ncollision, int(d.ncollision.numpy()[0]))
      rec.nacon = max(rec.nacon, int(d.nacon.numpy()[0]))
      rec.collision_calls += 1
      return out

    CD.collision = tapped_col
    return self

  def __exit__(self, *a):
    self._F.forward = self._orig
    self._CD.collision = self._orig_col
