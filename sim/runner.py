"""Parent side of a check: seeded search over runs in fresh interpreters, confirmation, minimisation, replay,
known-finding matching, evidence, exit code.

exit 0: property held on everything explored (or only listed known findings fired)
exit 1: confirmed, unlisted violation  (stdout: VIOLATION property=<id> replay=<path>)
exit 2: harness error (never reported as a violation, never as a pass)
"""

import importlib
import json
import os
import shutil
import subprocess
import sys
import time

HERE = os.path.dirname(os.path.dirname(os.path.abspath(__file__)))
PY = sys.executable
DEFAULT_SEED = 20260921


_SRC_HASH = None


def src_hash():
  """Hash of the mujoco_warp sources under /repo as they are on disk now (plus the seam code).

  Warp keys its kernel cache by a hash of the kernel sources it can see; that hash misses some edits (e.g. functions only
  passed to wp.tile_map), so the simulation caches are additionally keyed by the whole source tree: any edit of /repo gives a
  fresh cache directory and every kernel is rebuilt from the current working tree."""
  global _SRC_HASH
  if _SRC_HASH is None:
    import hashlib

    h = hashlib.sha256()
    repo = os.environ.get("VERIF_REPO", "/repo")
    root = os.path.join(repo, "mujoco_warp")
    files = []
    for dp, dn, fn in os.walk(root):
      dn.sort()
      if "test_data" in dp:
        continue
      for f in sorted(fn):
        if f.endswith(".py") and not f.endswith("_test.py"):
          files.append(os.path.join(dp, f))
    files.append(os.path.join(HERE, "sim", "seams.py"))
    for f in files:
      h.update(f.encode())
      h.update(open(f, "rb").read())
    _SRC_HASH = h.hexdigest()[:12]
  return _SRC_HASH


def prune_caches(keep=8):
  base = cache_dir()
  if not os.path.isdir(base):
    return
  for build in ("rel", "dbg"):
    # never the cache of the tree under test, and nothing that was touched in the last two hours (another check may be using it)
    ds = [os.path.join(base, d) for d in os.listdir(base) if d.startswith(f"wp-{build}-") and not d.endswith(src_hash())]
    ds = [d for d in ds if time.time() - os.path.getmtime(d) > 7200]
    ds.sort(key=lambda d: os.path.getmtime(d), reverse=True)
    for d in ds[keep:]:
      shutil.rmtree(d, ignore_errors=True)


def _env():
  e = dict(os.environ)
  e["VERIF_SRC_HASH"] = src_hash()
  e["PYTHONHASHSEED"] = e.get("VERIF_HASHSEED", "0")
  e["PYTHONPATH"] = HERE + os.pathsep + e.get("PYTHONPATH", "")
  e["MJWARP_VERIF_SIM"] = "1"
  repo = os.environ.get("VERIF_REPO")
  if repo and repo != "/repo":
    # checks normally import /repo (editable install); a scratch copy is put in front of it explicitly
    e["PYTHONPATH"] = repo + os.pathsep + e["PYTHONPATH"]
  e.setdefault("OMP_NUM_THREADS", "1")
  e.setdefault("OPENBLAS_NUM_THREADS", "1")
  e.setdefault("MKL_NUM_THREADS", "1")
  return e


def cache_dir():
  return os.environ.get("VERIF_CACHE", os.path.join(HERE, ".cache"))


class Proc:
  def __init__(self, jobfile, outfile, timeout):
    self.jobfile, self.outfile = jobfile, outfile
    self.t0 = time.time()
    self.timeout = timeout
    self.log = open(outfile + ".log", "w")
    self.p = subprocess.Popen([PY, "-m", "sim.worker", jobfile, outfile], cwd=HERE, env=_env(), stdout=self.log, stderr=subprocess.STDOUT)
    self.timed_out = False

  def poll(self):
    rc = self.p.poll()
    if rc is None and time.time() - self.t0 > self.timeout:
      self.p.kill()
      self.p.wait()
      self.timed_out = True
      rc = -9
    if rc is not None:
      self.log.close()
    return rc


def read_results(outfile):
  res, started, done = [], [], False
  if os.path.exists(outfile):
    for line in open(outfile):
      line = line.strip()
      if not line:
        continue
      try:
        o = json.loads(line)
      except Exception:
        continue
      if "start" in o:
        started.append(o["start"])
      elif o.get("done"):
        done = True
      else:
        res.append(o)
  return res, started, done


def run_jobs(pid, jobs_chunks, build, tier, workdir, workers, timeout, deadline=None, warm_first=True, extra=None):
  """Run chunks (lists of job dicts) in fresh interpreters, <= workers alive. Returns (results, crashes, skipped_chunks)."""
  os.makedirs(workdir, exist_ok=True)
  pending = list(enumerate(jobs_chunks))
  running = {}
  results, crashes = [], []
  skipped = 0
  retried = set()
  retry_count = [0]

  def start(ci, chunk):
    jf = os.path.join(workdir, f"job{ci}.json")
    of = os.path.join(workdir, f"out{ci}.jsonl")
    if os.path.exists(of):
      os.remove(of)
    job = {"property": pid, "build": build, "tier": tier, "jobs": chunk, "timeout_s": timeout}
    if extra:
      job.update(extra)
    json.dump(job, open(jf, "w"))
    running[ci] = (Proc(jf, of, timeout * len(chunk) + 120), chunk)

  def reap(block):
    while True:
      fin = [ci for ci, (p, _) in running.items() if p.poll() is not None]
      for ci in fin:
        p, chunk = running.pop(ci)
        res, started, done = read_results(p.outfile)
        results.extend(res)
        if not done and ci not in retried and not p.timed_out:
          # a worker death can be infrastructure (e.g. two interpreters JIT-compiling the same module into the shared cache at the
          # same moment): re-run the unfinished jobs of this chunk once in a fresh interpreter; only a death that repeats is kept
          finished = {r["idx"] for r in res}
          rest = [j for j in chunk if j.get("idx") not in finished]
          retried.add(ci)
          if rest:
            pending.append((ci, rest))
            retry_count[0] += 1
            continue
        if not done:
          finished = {r["idx"] for r in res}
          last = [s for s in started if s not in finished]
          tail = ""
          try:
            tail = open(p.outfile + ".log").read()[-2500:]
          except Exception:
            pass
          crashes.append({"chunk": ci, "idx": last[-1] if last else None, "timed_out": p.timed_out, "rc": p.p.returncode, "log": tail,
                          "job": next((j for j in chunk if j.get("idx") == (last[-1] if last else None)), None)})
      if fin or not block or not running:
        return
      time.sleep(0.05)

  if warm_first and pending:
    ci, chunk = pending.pop(0)
    start(ci, chunk)
    while running:
      reap(True)
  while pending or running:
    while pending and len(running) < workers:
      if deadline is not None and time.time() > deadline:
        skipped += len(pending)
        pending = []
        break
      ci, chunk = pending.pop(0)
      start(ci, chunk)
    if running:
      reap(True)
  return results, crashes, skipped


def crash_where(log, rc, timed_out):
  """Short, stable description of where a worker died: assertion text or the innermost mujoco_warp frame."""
  import re

  if timed_out:
    return "timeout"
  mm = re.findall(r"Assertion failed[^\n]*", log)
  if mm:
    return re.sub(r"0x[0-9a-f]+|\d{4,}", "#", mm[-1])[:160]
  frames = re.findall(r'File "[^"]*/mujoco_warp/_src/([a-z_]+\.py)", line \d+ in (\w+)', log)
  sig = {-11: "SIGSEGV", -6: "SIGABRT", -8: "SIGFPE", -7: "SIGBUS"}.get(rc, f"rc={rc}")
  if frames:
    return f"{sig} in {frames[0][0]}:{frames[0][1]}"
  return sig


def shrink_candidates(pid, sc, build, workdir):
  """Ask a worker for the shrink candidates of a scenario (the property modules need warp/mujoco to build them)."""
  res, _ = single(pid, sc, build, workdir, "shrinklist", extra={"list_shrinks": True})
  return (res or {}).get("candidates", [])


def load_known():
  p = os.path.join(HERE, "known_findings.json")
  if not os.path.exists(p):
    return []
  return json.load(open(p)).get("findings", [])


def match_known(known, pid, vclass):
  for k in known:
    if k.get("property") != pid or k.get("status") != "open":
      continue
    if all(vclass.get(a) == b for a, b in k["match"].items()):
      return k
  return None


def class_key(c):
  return json.dumps(c, sort_keys=True)


def single(pid, scenario, build, workdir, tag, timeout=900, extra=None):
  """Run one scenario alone in a fresh interpreter; returns (result or None, crash or None)."""
  res, crashes, _ = run_jobs(pid, [[{"idx": 0, "scenario": scenario}]], build, "replay", os.path.join(workdir, tag), 1, timeout, warm_first=False, extra=extra)
  return (res[0] if res else None), (crashes[0] if crashes else None)


def check(pid, tier, seed=None, replay=None, workers=None, budget_s=None):
  t0 = time.time()
  mod = importlib.import_module("sim.props." + pid.lower())
  seed = int(os.environ.get("VERIF_SEED", DEFAULT_SEED)) if seed is None else seed
  workers = int(os.environ.get("VERIF_WORKERS", min(16, os.cpu_count() or 1))) if workers is None else workers
  cfg = dict(mod.TIERS[tier if tier in mod.TIERS else "quick"])
  if budget_s is None and os.environ.get("VERIF_BUDGET_S"):
    budget_s = float(os.environ["VERIF_BUDGET_S"])
  budget_s = budget_s or cfg.get("budget_s", 600)
  build = getattr(mod, "BUILD", "rel")
  workdir = os.path.join(cache_dir(), "runs", f"{pid}-{tier}-{os.getpid()}")
  shutil.rmtree(workdir, ignore_errors=True)
  os.makedirs(workdir, exist_ok=True)
  repdir = os.path.join(os.environ.get("VERIF_REPLAY_DIR", os.path.join(HERE, "replays")), pid)
  os.makedirs(repdir, exist_ok=True)
  known = load_known()
  prune_caches()
  print(f"[{pid}] tier={tier} seed={seed} workers={workers} build={build} budget_s={budget_s}", flush=True)

  if replay:
    sc = json.load(open(replay))
    sc.pop("expect", None)
    res, crash = single(pid, sc, build, workdir, "replay")
    if crash or res is None:
      where = crash_where(crash["log"], crash["rc"], crash["timed_out"]) if crash else "?"
      print(f"[{pid}] replay: worker died: {where}")
      if getattr(mod, "CRASH_IS_VIOLATION", False):
        print(f"VIOLATION property={pid} replay={replay}")
        return 1
      return 2
    if res["status"] == "violation":
      for v in res["violations"]:
        print(f"[{pid}] replay reproduces: {json.dumps(v['class'], sort_keys=True)} :: {v.get('detail')}")
      print(f"VIOLATION property={pid} replay={replay}")
      return 1
    print(f"[{pid}] replay: no violation (status={res['status']} {res.get('error', '')})")
    return 0 if res["status"] in ("ok", "rejected") else 2

  nruns, chunk = cfg["runs"], cfg.get("chunk", 8)
  jobs = [{"seed": seed, "idx": i} for i in range(nruns)]
  chunks = [jobs[i : i + chunk] for i in range(0, nruns, chunk)]
  # per-run watchdog: at least 10 minutes (a slow scenario on a loaded machine is not a hang; the batch as a whole is bounded by budget_s)
  results, crashes, skipped = run_jobs(pid, chunks, build, tier, workdir, workers, max(600, cfg.get("timeout_s", 600)), deadline=t0 + budget_s)

  try:
    first_log = open(os.path.join(workdir, "out0.jsonl.log")).read()
    src = [ln for ln in first_log.splitlines() if ln.startswith("mujoco_warp imported from")]
    print(f"[{pid}] {src[0] if src else 'mujoco_warp import location not logged'} (source hash {src_hash()})", flush=True)
  except Exception:
    pass
  errors = [r for r in results if r["status"] == "error"]
  viols = [r for r in results if r["status"] == "violation"]
  harness_error = False
  reported, known_hits = [], {}

  # ---- crashes
  crash_is_violation = getattr(mod, "CRASH_IS_VIOLATION", False)
  for c in crashes:
    print(f"[{pid}] worker for chunk {c['chunk']} died at run idx={c['idx']} (timed_out={c['timed_out']}, rc={c['rc']})")
    print("    " + c["log"][-800:].replace("\n", "\n    "))
    if not crash_is_violation:
      harness_error = True
  # ---- confirmation + minimisation, one per distinct class
  seen = {}
  for r in sorted(viols, key=lambda r: r["idx"]):
    for v in r["violations"]:
      ck = class_key(v["class"])
      seen.setdefault(ck, []).append((r, v))
  budget_confirm = cfg.get("max_confirm", 6 if tier == "thorough" else 4)
  # confirmation and minimisation are bounded as well: the whole check must end within budget_s + post_budget_s (+ one confirmation)
  post_deadline = time.time() + cfg.get("post_budget_s", 900 if tier == "thorough" else 240)
  for ck, lst in seen.items():
    vclass = lst[0][1]["class"]
    k = match_known(known, pid, vclass)
    if k is not None:
      known_hits.setdefault(k["id"], [k, 0])[1] += len(lst)
      continue
    if budget_confirm <= 0:
      # too many distinct classes: report the first unconfirmed one as-is (still a fresh-process candidate)
      continue
    budget_confirm -= 1
    r, v = lst[0]
    sc = r["scenario"]
    res, crash = single(pid, sc, build, workdir, f"confirm{r['idx']}")
    ok = res is not None and res["status"] == "violation" and any(class_key(x["class"]) == ck for x in res["violations"])
    if not ok:
      # reproduce with its chunk prefix -> dependence on process history; otherwise harness defect
      print(f"[{pid}] candidate idx={r['idx']} class={ck} did NOT reproduce alone (status={None if res is None else res['status']}) -> harness error")
      path = os.path.join(repdir, f"unconfirmed-{r['idx']}.json")
      json.dump(dict(sc, expect={"violation_class": vclass}), open(path, "w"), indent=1, default=str)
      harness_error = True
      continue
    # minimise in one process, then re-confirm in a fresh one
    final = sc
    min_left = min(cfg.get("min_timeout_s", 600 if tier == "thorough" else 150), post_deadline - time.time())
    if hasattr(mod, "shrink") and cfg.get("minimise", True) and min_left >= 30:
      mres, mcrash = single(pid, sc, build, workdir, f"min{r['idx']}", timeout=int(min_left), extra={"minimise": ck})
      if mres is not None and mres.get("minimised"):
        cand = mres["minimised"]
        cres, _ = single(pid, cand, build, workdir, f"minconf{r['idx']}")
        if cres is not None and cres["status"] == "violation" and any(class_key(x["class"]) == ck for x in cres["violations"]):
          final = cand
          v = next(x for x in cres["violations"] if class_key(x["class"]) == ck)
    path = os.path.join(repdir, f"viol-{seed}-{r['idx']}.json")
    json.dump(dict(final, expect={"violation_class": vclass, "detail": v.get("detail")}), open(path, "w"), indent=1, default=str)
    reported.append((path, vclass, v.get("detail"), len(lst)))

  if crash_is_violation:
    seen_where = set()
    for c in crashes:
      where = crash_where(c["log"], c["rc"], c["timed_out"])
      if c.get("job") is None:
        print(f"[{pid}] worker died before its first run: harness error")
        harness_error = True
        continue
      gres, _ = single(pid, None, build, workdir, f"crashgen{c['idx']}", extra={"gen_only": True, "jobs": [c["job"]]})
      if gres is None or "scenario" not in gres:
        print(f"[{pid}] could not regenerate the scenario of crashed run idx={c['idx']}: harness error")
        harness_error = True
        continue
      sc = gres["scenario"]
      res, crash2 = single(pid, sc, build, workdir, f"crashconf{c['idx']}", timeout=cfg.get("timeout_s", 600))
      if crash2 is None:
        print(f"[{pid}] crash of run idx={c['idx']} ({where}) did NOT reproduce alone (status={None if res is None else res['status']}) -> harness error")
        json.dump(dict(sc, expect={"crash": where}), open(os.path.join(repdir, f"unconfirmed-crash-{c['idx']}.json"), "w"), indent=1, default=str)
        harness_error = True
        continue
      where = crash_where(crash2["log"], crash2["rc"], crash2["timed_out"])
      vclass = {"oracle": "process_survives", "kind": "timeout" if crash2["timed_out"] else "crash", "where": where}
      k = match_known(known, pid, vclass)
      if k is not None:
        known_hits.setdefault(k["id"], [k, 0])[1] += 1
        continue
      if where in seen_where:
        continue
      seen_where.add(where)
      final = sc
      if hasattr(mod, "shrink") and cfg.get("minimise", True):
        # a crash cannot be caught in-process: every shrink candidate runs in its own interpreter (bounded number of attempts)
        tries, improved = 0, True
        while improved and tries < cfg.get("crash_min_tries", 24):
          improved = False
          for cand in shrink_candidates(pid, final, build, workdir):
            tries += 1
            r2, c2 = single(pid, cand, build, workdir, f"crashmin{c['idx']}-{tries}", timeout=cfg.get("timeout_s", 600))
            if c2 is not None and crash_where(c2["log"], c2["rc"], c2["timed_out"]) == where:
              final, improved = cand, True
              break
            if tries >= cfg.get("crash_min_tries", 24):
              break
      path = os.path.join(repdir, f"crash-{seed}-{c['idx']}.json")
      json.dump(dict(final, expect={"violation_class": vclass, "detail": crash2["log"][-1500:]}), open(path, "w"), indent=1, default=str)
      reported.append((path, vclass, "worker process died: " + where, 1))
  for e in errors:
    print(f"[{pid}] run idx={e['idx']} raised: {e['error']}")
    print("    " + e.get("trace", "")[-1200:].replace("\n", "\n    "))
    harness_error = True

  # ---- evidence
  ev = merge_evidence(mod, pid, tier, seed, results, time.time() - t0, len(reported), skipped, crashes, known_hits)
  evdir = os.environ.get("VERIF_EVIDENCE_DIR", os.path.join(HERE, "evidence"))
  os.makedirs(evdir, exist_ok=True)
  json.dump(ev, open(os.path.join(evdir, f"{pid}.json"), "w"), indent=1, default=str)

  for kid, (k, n) in known_hits.items():
    print(f"KNOWN-FINDING: property={pid} {k['what']} [{kid}; fired in {n} run(s)]")
  for path, vclass, detail, n in reported:
    print(f"[{pid}] violation class={json.dumps(vclass, sort_keys=True)} in {n} run(s): {detail}")
    print(f"VIOLATION property={pid} replay={path}")
  nres = len(results)
  walls = sorted(r.get("wall_s", 0) for r in results)
  if walls:
    print(f"[{pid}] per-run wall: sum={sum(walls):.1f}s median={walls[len(walls) // 2]:.2f}s max={walls[-1]:.2f}s")
  print(f"[{pid}] runs={nres} violations={len(reported)} known={sum(n for _, n in known_hits.values())} errors={len(errors)} crashes={len(crashes)} "
        f"skipped_by_budget={skipped} evaluations={ev['coverage']['evaluations']} distinct_nontrivial={ev['coverage']['distinct_nontrivial']} wall={time.time() - t0:.1f}s", flush=True)
  shutil.rmtree(workdir, ignore_errors=True)
  if reported:
    return 1
  nrej = sum(1 for r in results if r["status"] == "rejected")
  if nrej:
    print(f"[{pid}] {nrej} run(s) had their model refused by put_model (outside the accepted input space, counted as rejected)")
  if harness_error or nres == 0 or nrej * 4 > nres:
    # a batch in which put_model refuses more than a quarter of the generated models explores too little to be called a pass
    return 2
  return 0


def merge_evidence(mod, pid, tier, seed, results, wall, nviol, skipped, crashes, known_hits):
  evals = 0
  keys = set()
  faults, skips, extra_sets = {}, {}, {}
  samples = []
  sim_time = 0.0
  status = {}
  for r in results:
    status[r["status"]] = status.get(r["status"], 0) + 1
    st = r.get("stats") or {}
    evals += int(st.get("evaluations", 0))
    keys.update(st.get("nontrivial", []))
    for k, v in (st.get("faults") or {}).items():
      faults[k] = max(faults.get(k, 0), v) if "worst" in k else faults.get(k, 0) + v  # "worst_*" gauges are maxima, everything else counts
    for k, v in (st.get("skipped") or {}).items():
      skips[k] = skips.get(k, 0) + v
    for k, v in (st.get("sets") or {}).items():
      extra_sets.setdefault(k, set()).update(v)
    sim_time += float(st.get("sim_time", 0.0))
    if len(samples) < 3 and st.get("sample") is not None:
      samples.append(st["sample"])
  cov = {
    "evaluations": evals,
    "distinct_nontrivial": len(keys),
    "rule": getattr(mod, "RULE", ""),
    "samples": samples or [{"note": "no sample recorded"}],
    "runs": len(results),
    "run_status": status,
    "runs_skipped_by_budget": skipped,
    "worker_crashes": len(crashes),
    "simulated_seconds": round(sim_time, 4),
    "runs_per_hour": round(len(results) / max(wall, 1e-9) * 3600, 1),
    "evaluations_per_hour": round(evals / max(wall, 1e-9) * 3600, 1),
    "faults_fired": faults,
    "comparisons_skipped_by_guard": skips,
    "distinct": {k: len(v) for k, v in extra_sets.items()},
    "known_findings_fired": {kid: n for kid, (k, n) in known_hits.items()},
    "real_vs_stub": getattr(mod, "REAL_VS_STUB", "real: mujoco_warp, Warp codegen + LLVM JIT + CPU runtime, MuJoCo C; replaced: order of the CPU launch loop (S1), contents of wp.empty memory (S2); absent: GPU"),
    "exhaustive": False,
  }
  return {
    "property_id": pid,
    "tier": "thorough" if tier == "thorough" else "quick",
    "seed": int(seed),
    "level": getattr(mod, "LEVEL", "exploration"),
    "coverage": cov,
    "assumptions": getattr(mod, "ASSUMPTIONS", []),
    "wall_s": round(wall, 2),
    "violations": nviol,
  }
