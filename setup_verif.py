#!/usr/bin/env python
"""setup_cmd: offline; checks the tool versions the seams depend on and warms the simulation kernel caches.

Everything is rebuilt from files on disk: /repo (editable install, current working tree), /venv, /verif.
The kernel caches live in /verif/.cache (git-ignored) and are only an accelerator: every check JIT-compiles what
is missing, so a failed or skipped warm-up costs time, never correctness.
"""
import os
import sys
import time

HERE = os.path.dirname(os.path.abspath(__file__))
sys.path.insert(0, HERE)
os.environ["PYTHONHASHSEED"] = "0"


def main():
  t0 = time.time()
  import warp

  assert warp.__version__ == "1.17.0", warp.__version__
  import mujoco

  print("warp", warp.__version__, "mujoco", mujoco.__version__)
  from sim import runner

  os.makedirs(runner.cache_dir(), exist_ok=True)
  warm = [("C12", "rel", 32)]
  extra = os.environ.get("VERIF_WARM", "")
  for pid, build, n in warm:
    jobs = [{"seed": runner.DEFAULT_SEED, "idx": i} for i in range(n)]
    chunks = [jobs[i : i + 2] for i in range(0, n, 2)]
    res, crashes, _ = runner.run_jobs(pid, chunks, build, "quick", os.path.join(runner.cache_dir(), "runs", "setup-" + pid), 16, 600)
    print(f"warm-up {pid}/{build}: {len(res)} runs, {len(crashes)} worker deaths, {time.time() - t0:.0f}s")
  print("setup done in %.0fs" % (time.time() - t0))


if __name__ == "__main__":
  main()
