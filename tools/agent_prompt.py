"""Print the prompt given to a mutation sub-agent for one property (only the property text + worktree path)."""
import json, sys
pid = sys.argv[1]; wt = sys.argv[2]; n = sys.argv[3] if len(sys.argv) > 3 else "2"
rec = next(json.loads(l) for l in open('/verif/properties.jsonl') if json.loads(l)['id'] == pid)
print(f"""You are helping to evaluate a verification effort by acting as a realistic source of regressions.

Repository: google-deepmind/mujoco_warp (MuJoCo Warp: GPU-batched rigid-body physics simulator written as NVIDIA Warp kernels in Python). You have your OWN scratch git worktree of it at {wt} . Work ONLY inside {wt} and the output directory {wt}-out (create it). Never read, write or cd into /repo or /verif, and never commit anywhere. This sandbox is CPU-only and offline; python is /venv/bin/python (warp 1.17 CPU backend, mujoco 3.13). To import your worktree's code rather than the installed one, run python from the worktree root with PYTHONPATH={wt} (check with: cd {wt} && PYTHONPATH={wt} /venv/bin/python -c "import mujoco_warp; print(mujoco_warp.__file__)").

The semantic property under study (JSON record):
{json.dumps(rec, indent=1)}

Task: produce {n} different, independent changes to the mujoco_warp source (not to its tests) such that each one
 (a) BREAKS the property above (a user relying on the property would get wrong behaviour),
 (b) still imports/compiles, and still passes the existing test-suite. The full suite is slow (1255 tests); run at least the test files of every source file you touch and the obviously related ones, e.g.  cd {wt} && PYTHONPATH={wt} /venv/bin/python -m pytest -q -x -p no:cacheprovider -n 4 mujoco_warp/_src/io_test.py mujoco_warp/_src/forward_test.py   (never use more than -n 4; other jobs share this machine),
 (c) is REALISTIC: something a maintainer could plausibly write in a refactor, optimisation or bug-fix gone wrong (an off-by-one, a dropped re-initialisation, a wrong index, a loop bound by the wrong size, an early return, a cache keyed by too little, a level-by-level loop fused into one launch, ...), small (a few lines), not a sabotage like 'if seed == 42'.
 (d) needs SOMETHING SPECIFIC to manifest - a particular thread order / interleaving of kernel tasks (note: Warp's CPU backend runs the tasks of a launch in ascending order, so order bugs do not show under the test-suite), a crash/restart/reset at a particular point, a multi-step sequence of operations, an unusual input or configuration (e.g. capacities at exact fit, na > nu, several worlds with different contents, a particular model feature), or two cooperating sites that each look fine alone. NOT something ordinary use (one world, default options, step a few times) would expose at once.
Prefer changes in the files listed in the property's anchors, and make the {n} changes differ in mechanism and location.

For each change k = 1..{n} write into {wt}-out/m<k>/ :
  - patch.diff : `git diff` of the change against the worktree HEAD (apply cleanly with `git apply`)
  - demo.py    : a small self-contained program (uses only public mujoco_warp / mujoco / numpy / warp APIs, may embed an MJCF string) that exits 0 and prints OK on the ORIGINAL code and exits 1 printing what went wrong WITH the change; it must be deterministic.
  - notes.md   : 5-15 lines: what the change is, why it is plausible, exactly what it needs in order to manifest, which tests you ran (command + result), and the demo's output with and without the change.
If a change manifests ONLY under a non-ascending thread order (which the CPU backend never produces), a failing demo may be impossible with public APIs: in that case make demo.py show the hazard as concretely as you can (e.g. emulate the other order by calling the kernels/launches by hand in a different order or on a permuted problem) or, failing that, explain in notes.md precisely which kernel, which two tasks and which order produce which wrong output; say clearly that the demo does not fail on CPU. Verify each demo yourself both ways (use `git diff > file`, `git apply -R file`, `git apply file`; NEVER use `git stash`: the stash is shared between worktrees of other agents). Leave the worktree clean (git checkout -- . ; no untracked files) when you finish - everything you want to keep goes in {wt}-out. Kernel JIT compilation of a model takes ~20-60 s the first time; that is normal. Finish with a short summary of the changes you produced (or say which you could not make pass the tests).""")
