#!/usr/bin/env python
"""Self-tests of the simulator itself (DESIGN section 9).

  selftest.py determinism [--props C12,C13,...] [--n 16] [--seed S]
      every run index is executed three times in fresh interpreters:
        A  chunks of 4, 16 workers, PYTHONHASHSEED=0
        B  chunks of 1, reversed order, 5 workers, PYTHONHASHSEED=0
        C  chunks of 3, 11 workers, PYTHONHASHSEED=12345
      and the per-run records (status, violation classes, evaluations, non-trivial keys, fault counters, state digest) must be equal.
      exit 0 = all equal, exit 2 = a divergence (harness defect; printed with the run index).

The result is written to /verif/selftests/determinism.json.
"""

import argparse
import hashlib
import importlib
import json
import os
import shutil
import sys
import time

HERE = os.path.dirname(os.path.dirname(os.path.abspath(__file__)))
sys.path.insert(0, HERE)
os.environ.setdefault("PYTHONHASHSEED", "0")

from sim import runner  # noqa: E402

ALL = ["C08", "C09", "C10", "C11", "C12", "C13", "C14", "C16", "C23", "C25", "C29", "C30", "C36", "C37", "C38"]


def record(r):
  st = r.get("stats") or {}
  faults = {k: v for k, v in (st.get("faults") or {}).items()}
  rec = {
    "status": r.get("status"),
    "classes": sorted(json.dumps(v["class"], sort_keys=True) for v in r.get("violations") or []),
    "evaluations": st.get("evaluations"),
    "nontrivial": hashlib.sha256(json.dumps(sorted(st.get("nontrivial") or [])).encode()).hexdigest()[:12],
    "faults": faults,
    "skipped": st.get("skipped"),
    "digest": r.get("digest"),
  }
  return rec


def run_config(pid, mod, idxs, seed, tag, chunk, workers, hashseed, reverse, tier):
  os.environ["VERIF_HASHSEED"] = str(hashseed)
  jobs = [{"seed": seed, "idx": i} for i in idxs]
  if reverse:
    jobs = jobs[::-1]
  chunks = [jobs[i : i + chunk] for i in range(0, len(jobs), chunk)]
  workdir = os.path.join(runner.cache_dir(), "runs", f"selftest-{pid}-{tag}-{os.getpid()}")
  shutil.rmtree(workdir, ignore_errors=True)
  res, crashes, _ = runner.run_jobs(pid, chunks, getattr(mod, "BUILD", "rel"), tier, workdir, workers, mod.TIERS["quick"].get("timeout_s", 600))
  shutil.rmtree(workdir, ignore_errors=True)
  return {r["idx"]: record(r) for r in res}, len(crashes)


def main():
  ap = argparse.ArgumentParser()
  ap.add_argument("what", choices=["determinism"])
  ap.add_argument("--props", default=",".join(ALL))
  ap.add_argument("--n", type=int, default=16)
  ap.add_argument("--seed", type=int, default=int(os.environ.get("VERIF_SEED", runner.DEFAULT_SEED)))
  a = ap.parse_args()
  t0 = time.time()
  out = {"seed": a.seed, "per_property": {}, "configs": ["A: chunk 4, 16 workers, hashseed 0", "B: chunk 1, reversed, 5 workers, hashseed 0", "C: chunk 3, 11 workers, hashseed 12345"]}
  bad = 0
  for pid in a.props.split(","):
    mod = importlib.import_module("sim.props." + pid.lower())
    idxs = list(range(a.n))
    A, ca = run_config(pid, mod, idxs, a.seed, "A", 4, 16, 0, False, "quick")
    B, cb = run_config(pid, mod, idxs, a.seed, "B", 1, 5, 0, True, "quick")
    C, cc = run_config(pid, mod, idxs, a.seed, "C", 3, 11, 12345, False, "quick")
    div = []
    for i in idxs:
      ra, rb, rc = A.get(i), B.get(i), C.get(i)
      if not (ra == rb == rc):
        div.append({"idx": i, "A": ra, "B": rb, "C": rc})
    out["per_property"][pid] = {"runs": len(idxs), "executions": 3 * len(idxs), "divergent": len(div), "worker_deaths": ca + cb + cc, "first_divergence": div[:1]}
    print(f"[selftest] {pid}: {len(idxs)} runs x 3 configurations, divergent={len(div)} deaths={ca + cb + cc} ({time.time() - t0:.0f}s)", flush=True)
    for d in div[:3]:
      print("   ", json.dumps(d)[:1500])
    bad += len(div)
  out["wall_s"] = round(time.time() - t0, 1)
  out["divergent_total"] = bad
  os.makedirs(os.path.join(HERE, "selftests"), exist_ok=True)
  json.dump(out, open(os.path.join(HERE, "selftests", "determinism.json"), "w"), indent=1)
  sys.exit(2 if bad else 0)


if __name__ == "__main__":
  main()
