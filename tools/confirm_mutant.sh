#!/bin/bash
# usage: confirm_mutant.sh <name> <patch.diff> <demo.py>   e.g. confirm_mutant.sh C13-m1 /tmp/wt/C13-out/m1/patch.diff /tmp/wt/C13-out/m1/demo.py
# Confirms in a scratch worktree (outside /repo and /verif) that (1) the demo passes on HEAD, (2) the patch applies, (3) the demo fails
# with the patch, (4) the related test files show no failure beyond the baseline's known failures. Removes the worktree afterwards.
set -u
name=$1; patch=$2; demo=$3
wt=/tmp/wt/confirm-$name
out=/tmp/wt/confirm-$name.json
rm -rf "$wt"; git -C /repo worktree prune
git -C /repo worktree add --detach "$wt" HEAD >/dev/null 2>&1 || { echo "worktree failed"; exit 3; }
cd "$wt"
export PYTHONPATH=$wt
timeout 900 /venv/bin/python "$demo" > "$wt.demo0.log" 2>&1; rc0=$?
git apply "$patch" || { echo "{\"name\":\"$name\",\"applies\":false}" > "$out"; cd /; git -C /repo worktree remove --force "$wt"; exit 1; }
timeout 900 /venv/bin/python "$demo" > "$wt.demo1.log" 2>&1; rc1=$?
files=$(git diff --name-only | grep "_src/" | sed 's/\.py$/_test.py/' | while read f; do [ -f "$f" ] && echo "$f"; done | tr '\n' ' ')
tests="$files mujoco_warp/_src/forward_test.py mujoco_warp/_src/io_test.py mujoco_warp/_src/solver_test.py mujoco_warp/_src/sleep_test.py mujoco_warp/_src/constraint_test.py mujoco_warp/_src/collision_driver_test.py mujoco_warp/_src/smooth_test.py mujoco_warp/_src/sensor_test.py mujoco_warp/_src/support_test.py mujoco_warp/_src/island_test.py"
tests=$(echo $tests | tr ' ' '\n' | sort -u | tr '\n' ' ')
timeout 3000 /venv/bin/python -m pytest -q -p no:cacheprovider -n 6 $tests > "$wt.tests.log" 2>&1
fails=$(grep "^FAILED" "$wt.tests.log" | sed 's/ - .*//' | sed 's/^FAILED //' | grep -v -E "test_get_data_into_io_test_models(18|19|22|23)|test_constraints(8|9|10|11)$|test_collision20|flex_test" | tr '\n' ' ')
summary=$(tail -1 "$wt.tests.log")
cd /
git -C /repo worktree remove --force "$wt"
echo "{\"name\":\"$name\",\"applies\":true,\"demo_rc_head\":$rc0,\"demo_rc_patched\":$rc1,\"new_test_failures\":\"$fails\",\"tests\":\"$summary\",\"test_files\":\"$tests\"}" > "$out"
cat "$out"
