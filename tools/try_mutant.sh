#!/bin/bash
# usage: try_mutant.sh <patch.diff> <property> [extra check.py args]  -- applies the patch to /repo, runs the check, always reverts
set -u
patch=$1; pid=$2; shift 2
cd /repo || exit 3
if [ -n "$(git status --porcelain --untracked-files=no)" ]; then echo "repo not clean"; exit 3; fi
git apply "$patch" || { echo "patch does not apply"; exit 3; }
cd /verif
/venv/bin/python check.py "$pid" quick "$@" 2>&1 | cut -c1-400 | grep -E "VIOLATION|KNOWN|runs=|violation class|died|raised" | head -20
rc=${PIPESTATUS[0]}
git -C /repo checkout -- .
echo "exit=$rc"
