#!/usr/bin/env python
"""Run the quick check of the property each seeded change (seeded/<name>/patch.diff) breaks, against a scratch worktree of /repo HEAD
with the change applied (outside /repo and /verif, removed afterwards), and record whether the check reports a violation.

usage: sweep_mutants.py [name ...]      (default: every directory under /verif/seeded)
env:   VERIF_SEED (default 1), VERIF_WORKERS (default 16), SWEEP_ALSO=C16,C17 (extra properties to try for every change),
       SWEEP_DIR=reverts (corpus directory under /verif; default seeded; reverts/ holds the reverse patches of the fix: commits)
Results: /verif/seeded/<name>/detection.json and a table on stdout.  Nothing is ever committed to /repo.
"""

import json
import os
import re
import subprocess
import sys
import time

HERE = os.path.dirname(os.path.dirname(os.path.abspath(__file__)))
SEEDED = os.path.join(HERE, os.environ.get("SWEEP_DIR", "seeded"))


def run_one(name, pid, seed, workers):
  wt = f"/tmp/wt/mut-{name}-{pid}"
  out = wt + "-out"
  subprocess.run(["rm", "-rf", wt, out])
  subprocess.run(["git", "-C", "/repo", "worktree", "prune"])
  r = subprocess.run(["git", "-C", "/repo", "worktree", "add", "--detach", wt, "HEAD"], capture_output=True, text=True)
  if r.returncode:
    return {"error": "worktree: " + r.stderr[-300:]}
  try:
    r = subprocess.run(["git", "apply", os.path.join(SEEDED, name, "patch.diff")], cwd=wt, capture_output=True, text=True)
    if r.returncode:
      return {"error": "patch does not apply to /repo HEAD: " + r.stderr[-300:]}
    os.makedirs(out, exist_ok=True)
    env = dict(os.environ, VERIF_REPO=wt, VERIF_EVIDENCE_DIR=out + "/evidence", VERIF_REPLAY_DIR=out + "/replays", VERIF_SEED=str(seed), VERIF_WORKERS=str(workers))
    t0 = time.time()
    p = subprocess.run(["/venv/bin/python", "check.py", pid, "quick"], cwd=HERE, env=env, capture_output=True, text=True, timeout=3600)
    log = p.stdout + p.stderr
    classes = re.findall(r"violation class=(\{.*?\}) in (\d+) run", log)
    src = re.findall(r"mujoco_warp imported from (\S+)", log)
    return {"exit": p.returncode, "violation_lines": len(re.findall(r"^VIOLATION property=", log, flags=re.M)), "classes": [c for c, _ in classes][:8],
            "known_finding_lines": len(re.findall(r"^KNOWN-FINDING:", log, flags=re.M)), "wall_s": round(time.time() - t0, 1), "imported_from": src[:1],
            "summary": (re.findall(r"^\[C\d+\] runs=.*$", log, flags=re.M) or [""])[-1], "tail": log[-600:] if p.returncode not in (0, 1) else ""}
  finally:
    subprocess.run(["git", "-C", "/repo", "worktree", "remove", "--force", wt])
    subprocess.run(["rm", "-rf", out])


def main():
  names = sys.argv[1:] or sorted(d for d in os.listdir(SEEDED) if os.path.isdir(os.path.join(SEEDED, d)))
  seed = int(os.environ.get("VERIF_SEED", "1"))
  workers = int(os.environ.get("VERIF_WORKERS", "16"))
  also = [x for x in os.environ.get("SWEEP_ALSO", "").split(",") if x]
  for name in names:
    meta = json.load(open(os.path.join(SEEDED, name, "meta.json")))
    pids = [meta["breaks_property"]] + [a for a in (meta.get("also") or []) + also if a != meta["breaks_property"]]
    det_path = os.path.join(SEEDED, name, "detection.json")
    det = json.load(open(det_path)) if os.path.exists(det_path) else {}
    for pid in pids:
      res = run_one(name, pid, seed, workers)
      res["seed"] = seed
      res["repo_head"] = subprocess.run(["git", "-C", "/repo", "rev-parse", "--short", "HEAD"], capture_output=True, text=True).stdout.strip()
      res["verif_head"] = subprocess.run(["git", "-C", HERE, "rev-parse", "--short", "HEAD"], capture_output=True, text=True).stdout.strip()
      det[pid] = res
      verdict = "DETECTED" if res.get("exit") == 1 and res.get("violation_lines") else "missed" if res.get("exit") == 0 else "error"
      print(f"{name:10s} {pid} seed={seed} -> {verdict} exit={res.get('exit')} {res.get('error', '')} {res.get('summary', '')[:160]}", flush=True)
      for c in res.get("classes", [])[:3]:
        print("           ", c[:200])
    json.dump(det, open(det_path, "w"), indent=1)


if __name__ == "__main__":
  main()
