#!/bin/bash
# usage: vet.sh "<seeds>" <property>...      e.g. tools/vet.sh "2 3" C09 C11
# Runs the quick check of each property at each seed on /repo as it is, with evidence and replays redirected to /tmp/vet (so the
# committed evidence is not overwritten), and prints one line per (property, seed): exit code and number of VIOLATION lines.
seeds=$1; shift
here=$(cd "$(dirname "$0")/.." && pwd)
mkdir -p /tmp/vet
for seed in $seeds; do
  for p in "$@"; do
    mkdir -p /tmp/vet/ev-$seed /tmp/vet/rep-$seed
    ( cd "$here" && VERIF_CACHE=${VERIF_CACHE:-/verif/.cache} VERIF_SEED=$seed VERIF_EVIDENCE_DIR=/tmp/vet/ev-$seed VERIF_REPLAY_DIR=/tmp/vet/rep-$seed timeout 2400 /venv/bin/python check.py $p quick > /tmp/vet/$p-$seed.log 2>&1; echo "rc=$?" >> /tmp/vet/$p-$seed.log )
    echo "$p seed=$seed $(tail -1 /tmp/vet/$p-$seed.log) viol=$(grep -c '^VIOLATION' /tmp/vet/$p-$seed.log) known=$(grep -c '^KNOWN-FINDING' /tmp/vet/$p-$seed.log) $(grep -o 'wall=[0-9.]*s' /tmp/vet/$p-$seed.log | tail -1)"
  done
done
