"""Store a confirmed seeded change under /verif/seeded/<name>/ (patch.diff, demo.py, notes.md, meta.json)."""
import json, os, shutil, sys
name, prop, src, patch = sys.argv[1], sys.argv[2], sys.argv[3], sys.argv[4]
conf = json.load(open(f"/tmp/wt/confirm-{name}.json"))
assert conf["applies"] and conf["demo_rc_head"] == 0 and conf["demo_rc_patched"] != 0 and not conf["new_test_failures"].strip(), conf
dst = f"/verif/seeded/{name}"
os.makedirs(dst, exist_ok=True)
shutil.copy(patch, dst + "/patch.diff")
shutil.copy(src + "/demo.py", dst + "/demo.py")
if os.path.exists(src + "/notes.md"):
  shutil.copy(src + "/notes.md", dst + "/notes.md")
notes = open(src + "/notes.md").read() if os.path.exists(src + "/notes.md") else ""
meta = {
  "name": name, "breaks_property": prop,
  "needs_to_manifest": sys.argv[5] if len(sys.argv) > 5 else "",
  "confirmed": {"how": "tools/confirm_mutant.sh in a scratch worktree of /repo HEAD under /tmp/wt (removed afterwards)",
                "demo_exit_on_head": conf["demo_rc_head"], "demo_exit_with_change": conf["demo_rc_patched"],
                "tests_run": conf["test_files"].split(), "tests_summary": conf["tests"],
                "failures_beyond_baseline_known_failures": conf["new_test_failures"].strip() or "none"},
  "detected_by": sys.argv[6] if len(sys.argv) > 6 else "",
  "origin": "independent sub-agent given only the property text and a scratch worktree",
}
json.dump(meta, open(dst + "/meta.json", "w"), indent=1)
print("kept", dst)
