#!/bin/bash
# usage: try_mutant_wt.sh <name> <patch.diff> <property> [tier]
# Runs a check against a scratch worktree of /repo HEAD with the patch applied (outside /repo and /verif), so /repo stays untouched
# and several seeded changes can be examined at the same time. Evidence and replays of such runs go to /tmp/wt/mut-<name>-out.
set -u
name=$1; patch=$2; pid=$3; tier=${4:-quick}
wt=/tmp/wt/mut-$name-$pid
rm -rf "$wt"; git -C /repo worktree prune
git -C /repo worktree add --detach "$wt" HEAD >/dev/null 2>&1 || { echo "worktree failed"; exit 3; }
( cd "$wt" && git apply "$patch" ) || { echo "patch does not apply"; git -C /repo worktree remove --force "$wt"; exit 3; }
mkdir -p "$wt-out"
cd /verif
VERIF_REPO=$wt VERIF_EVIDENCE_DIR=$wt-out/evidence VERIF_REPLAY_DIR=$wt-out/replays VERIF_WORKERS=${VERIF_WORKERS:-8} /venv/bin/python check.py "$pid" "$tier" > "$wt-out/log" 2>&1
rc=$?
grep -E "VIOLATION|KNOWN|runs=|violation class|died|raised|imported from" "$wt-out/log" | cut -c1-420 | head -12
echo "RESULT name=$name property=$pid exit=$rc"
git -C /repo worktree remove --force "$wt"
