"""Regenerate /verif/MANIFEST.json from the property modules that exist under sim/props (single source of truth)."""

import importlib
import json
import os
import sys

HERE = os.path.dirname(os.path.dirname(os.path.abspath(__file__)))
sys.path.insert(0, HERE)

NA = {
  "C01": "pure function of (model, qpos) evaluated once; no schedule, history, fault or clock in it (its thread-order aspect is decided by C11)",
  "C02": "pure function of (model, state); no schedule, history, fault or clock (thread-order aspect is C11)",
  "C03": "pure function of (model, state, ctrl); differential testing against MuJoCo, not simulation",
  "C04": "pure function of (scene, pose); contact listing order / atomics are decided by C11",
  "C05": "pure function of (model, state); row order / atomic allocation are decided by C11",
  "C06": "optimality certificate of one solve; warmstart is an input, no schedule/history/fault dimension",
  "C07": "pure function of (model, state); delayed sensors are C30",
  "C15": "enumeration of 2^NSTATE signatures x masks of one copy kernel; no schedule/fault/time dimension (get/set_state are exercised as the transplant mechanism of C12-C14 but C15 is not claimed)",
  "C18": "configuration differential of a pure function of the pose",
  "C19": "static table built at put_model plus a pure predicate",
  "C20": "per-pair pure geometry",
  "C21": "linear-algebra identity per (model, state, rhs); traversal order is C11",
  "C22": "pure function; dense/sparse equivalence is a configuration differential",
  "C24": "invariant of one solve output; forces are rewritten each solve, no history",
  "C26": "round-trip identity on one state",
  "C27": "pure function; finite differences",
  "C28": "pure graph function; the stated method is exhaustive small-graph enumeration (model checking, not simulation); atomics/order are C11",
  "C31": "pure conversion of one input",
  "C32": "configuration differential of a pure function (flags are swarm-varied knobs in every simulated run)",
  "C33": "pure function of the changed model",
  "C34": "pure function of (scene, ray)",
  "C35": "pure function of (scene, camera)",
  "C39": "pure decoding of one solve output",
  "C40": "pure function of (model, state)",
}
LEVEL_TEXT = {
  "C08": "Seeded lock-step histories: every step is taken by mujoco_warp and by MuJoCo C from the same re-synchronised state, for all four integrators; sampling of models, states and histories, not enumeration. A clean batch is evidence that no integrator path drifts from MuJoCo beyond float32/solver tolerance on the explored histories.",
  "C09": "Seeded search over batches: a target world is simulated inside twin batches whose other worlds differ in everything (states, inputs, resets, sleep, near-overflow of the shared contact buffer) and must stay bit-identical over the whole history; batch size/position is compared single-step to round-off. Exploration: the quantifier (any batch, any neighbours, any history) is sampled.",
  "C10": "Every batchable float field of Model/Option/Statistic is visited in turn (cyclic enumeration of the field list) with seeded per-world values and batch sizes nworld / divisor / 1; world i of the batched model must be bit-identical to an unbatched model holding its values. Fields are enumerated, values, models and histories are sampled; fields that are dead in the sampled scene are reported as such.",
  "C11": "The simulator owns the serial order of the tasks of every kernel launch (DESC, STRIDE, BLOCK, PERM, per launch / per stage / per kernel) and compares each op with its ascending twin from the same state, with poisoned scratch memory and exact-fit capacities. Exploration of schedules: whole-task serial orders only, sampled.",
  "C12": "Crash/restart with only durable state surviving: the integration state is transplanted (get_state/set_state) from a Data with an arbitrary past (steps, resets, overflows, other capacities, garbage scratch) into a fresh Data; forward() and K steps must be bit-identical. Exploration over histories and allocator patterns.",
  "C13": "Per-node restart: after seeded histories reset_data is called with every mask shape and dtype; selected worlds must equal a fresh Data bit for bit (state, delay buffers, sleep state, following trajectory), unselected worlds their un-reset twin. Exploration over histories, masks and model features.",
  "C14": "Per-node restart to a keyframe: valid, invalid, mixed and malformed key arguments after seeded histories; valid worlds are compared bit-exactly with a fresh reset plus the keyframe (cross-checked with mj_resetDataKeyframe), invalid-index worlds with their untouched twin. Exploration.",
  "C16": "Fault enumeration: for each sampled probe state the capacity axis of each kind (naconmax, njmax, njmax_nnz) is enumerated completely from 0 to need+1 (bounded subsets only where a value costs a kernel build), each value injected as an allocation limit; every world must report the matching overflow bit or equal the ample run. Probe states, models and schedules are sampled.",
  "C17": "Exploration under Warp's bounds-checked debug build: seeded fault plans (zero/tiny/exact capacities of every kind, iteration budgets 0/1, permuted schedules, poisoned scratch, resets) run in worker processes; a worker death or an arithmetic/indexing error of a public op is the violation, attributed by write-ahead log and replayed alone; a table of invalid configurations must raise.",
  "C23": "Invariant monitoring along long seeded histories (all integrators, large angular velocities, unnormalised start quaternions): after every step every free/ball quaternion is unit and every reported orientation is a proper rotation. Exploration over histories.",
  "C25": "Fault enumeration over the iteration budget: for each sampled probe batch the limit L is enumerated from 0 to max need + 2 for both loop forms; per world the iteration count, the ITERATIONS bit and bit-identity with the generous-limit result are checked. Probe batches are sampled, the budget axis is enumerated.",
  "C29": "Clause monitors over seeded histories with sleep count-downs, user perturbations and waking kernels under permuted schedules, with a stage tap after forward() to see within-step wakes, a well-formed-cycle invariant, bounded liveness (asleep within MINAWAKE+3 calm steps) and a guarded lock-step against MuJoCo C. Exploration.",
  "C30": "Simulated clock on dyadic time grids: the same op sequence (controls, masked resets, history initialisation, timed reads) drives mujoco_warp and MuJoCo C on plants with delayed/interval actuators and scalar and vector sensors; applied control, sensor values, buffers and read_ctrl/read_sensor must agree at every step past buffer wrap-around. Exploration over histories and buffer shapes.",
  "C36": "Process history as the schedule: a target program is run after a seeded sequence of polluter programs in the same interpreter (differing in exactly what keys process-global caches, including the target itself with flipped flags / other batch sizes) and compared digest by digest with the same target in a fresh interpreter. Exploration over program sequences.",
  "C37": "Algebraic laws over call sequences on twin Data from the same state: step = step1;step2 (Euler, implicit, implicitfast), forward leaves the integration state untouched, forward;forward = forward, all bit-exact. Exploration over models, states and integrators.",
  "C38": "Fault enumeration over the DOF capacity: lock-step variants of one sleep history with nvmax swept (completely for nv <= 24 in the thorough tier, boundary values and seeded interior values otherwise); NVMAX bit when active DOFs exceed it, otherwise equality with the ample run, compact = full solve when every tree is awake, frozen DOFs exactly zero.",
}
DST = "deterministic simulation with fault injection: "
TECHNIQUE = {
  "C08": DST + "seeded op histories on a simulated clock, lock-step refinement against the MuJoCo C reference model, state re-synchronised every step",
  "C09": DST + "seeded multi-world histories, twin batches with perturbed neighbours (bit-exact content independence), shared-buffer pressure and neighbour resets as faults, simulator-owned schedules",
  "C10": DST + "seeded twin runs of a batched and an unbatched model per enumerated field, co-resident worlds with different parameters as the interference",
  "C11": DST + "seeded search over simulator-owned serial task schedules of every kernel launch, poisoned allocator, exact-fit capacities; differential against the ascending order; ddmin to one kernel",
  "C12": DST + "crash/restart (only the integration state survives, transplanted into a fresh Data) after seeded histories with overflow episodes and garbage scratch memory; bit-exact twin oracle",
  "C13": DST + "per-world restart (reset_data) injected into seeded histories, fresh-Data and un-reset-twin reference models, bit-exact",
  "C14": DST + "per-world keyframe restart with valid/invalid/malformed selections injected into seeded histories, twin and MuJoCo reference",
  "C16": DST + "allocation-failure injection: complete sweep of each capacity from 0 to need+1 per sampled probe state, under ascending and permuted schedules",
  "C17": DST + "seeded fault plans (capacities, budgets, schedules, poison) executed in sacrificial worker processes under the bounds-checked build; crash attribution by write-ahead log and replay",
  "C23": DST + "invariant monitoring after every step of long seeded histories on the simulated clock",
  "C25": DST + "time-out injection: complete sweep of the solver iteration budget per sampled probe batch, both loop forms, worlds converging at different iterations",
  "C29": DST + "seeded histories with count-down timers, user perturbations and permuted waking kernels; clause monitors with a mid-step stage tap, bounded-liveness check, guarded lock-step with MuJoCo C",
  "C30": DST + "simulated clock on dyadic grids, seeded control sequences past buffer wrap-around, resets and history initialisation as faults, lock-step against MuJoCo C",
  "C36": DST + "process history as the schedule: seeded polluter programs before the target in one interpreter vs the target alone in a fresh interpreter, digest equality",
  "C37": DST + "seeded call sequences on twin Data, bit-exact algebraic laws between pipeline entry points",
  "C38": DST + "DOF-capacity fault sweep along seeded sleep histories, lock-step variants compared world by world",
}
PENDING = ("designed in DESIGN.md; not claimed: its check module (sim/props, if present) has not been shown quiet on the unchanged tree from a fresh "
           "restore at more than one seed, so no verdict of it is offered (no claim is made until its command is sound)")
# modules that exist but are not claimed yet (their last recorded runs still showed unclassified alarms or harness errors)
UNVETTED = set()  # every module has been vetted at seeds 1, 2, 3 on the unchanged tree (DESIGN 8.5, 8.6)


def main():
  ids = [json.loads(l)["id"] for l in open(os.path.join(HERE, "properties.jsonl"))]
  checks, na = [], []
  for pid in ids:
    path = os.path.join(HERE, "sim", "props", pid.lower() + ".py")
    if pid in NA:
      na.append({"property_id": pid, "reason": NA[pid]})
      continue
    if not os.path.exists(path) or pid in UNVETTED or os.environ.get("VERIF_SKIP_" + pid):
      na.append({"property_id": pid, "reason": PENDING})
      continue
    src = open(path).read()

    def const(name, default=""):
      # read simple module-level string constants without importing warp
      import ast

      for node in ast.parse(src).body:
        if isinstance(node, ast.Assign) and getattr(node.targets[0], "id", None) == name:
          try:
            return ast.literal_eval(node.value)
          except Exception:
            return default
      return default

    checks.append({
      "property_id": pid,
      "quick_cmd": f"/venv/bin/python check.py {pid} quick",
      "thorough_cmd": f"/venv/bin/python check.py {pid} thorough",
      "evidence_file": f"/verif/evidence/{pid}.json",
      "replay_cmd_template": f"/venv/bin/python check.py {pid} --replay {{path}}",
      "engine": "dst",
      "level_claimed": {"category": const("LEVEL", "exploration"), "text": const("LEVEL_TEXT", "") or LEVEL_TEXT.get(pid, ""), "design_ref": "DESIGN.md section 7, " + pid},
      "level_note": const("LEVEL_NOTE", "sampling, not enumeration; CPU backend; serial orders of whole tasks only; MuJoCo 3.13 / Warp 1.17 trusted"),
      "technique": const("TECHNIQUE", "") or TECHNIQUE.get(pid, "deterministic simulation with fault injection: seeded search over scenarios"),
    })  # fmt: skip
  man = {
    "version": 1,
    "setup_cmd": "/venv/bin/python setup_verif.py",
    "hooks": {
      "guard": "MJWARP_VERIF_SIM",
      "enable": "no hook lives in /repo: the seams (thread scheduler, allocator contents, launch log) are monkey patches of the `warp` module installed by /verif/sim/seams.py inside /verif worker processes only (env MJWARP_VERIF_SIM=1 is set for them); /repo is imported as it is on disk (editable install), so checks always run the current working tree",
      "baseline_off_cmd": "cd /repo && /venv/bin/python -m pytest -ra -q -p no:cacheprovider --timeout=900 --continue-on-collection-errors",
      "source_commits": [],
      "add_only": True,
    },
    "engines": [{
      "name": "dst",
      "path": "/verif/sim",
      "serves_properties": [c["property_id"] for c in checks],
      "kind_free_text": "deterministic simulator for mujoco_warp on Warp's CPU backend: owns the per-launch task order (S1), wp.empty contents (S2), capacities, budgets, process history and the simulated clock; seeded scenario search in fresh interpreters, confirmation, delta-debugging minimisation, JSON replay files",
    }],
    "checks": checks,
    "not_applicable": na,
    "notes": "See DESIGN.md. Fix commits in /repo are listed in known_findings.json (status fixed); open findings are matched by violation class.",
  }  # fmt: skip
  json.dump(man, open(os.path.join(HERE, "MANIFEST.json"), "w"), indent=1)
  print("claimed:", [c["property_id"] for c in checks])
  print("pending:", [x["property_id"] for x in na if x["reason"] == PENDING])


if __name__ == "__main__":
  main()
