"""Regenerate /verif/MANIFEST.json from the property modules that exist under sim/props (single source of truth)."""

import importlib
import json
import os
import sys

HERE = os.path.dirname(os.path.dirname(os.path.abspath(__file__)))
sys.path.insert(0, HERE)

NA = {
  "C01": "pure function of (model, qpos) evaluated once; no schedule, history, fault or clock in it (its thread-order aspect is decided by C11)",
  "C02": "pure function of (model, state); no schedule, history, fault or clock (thread-order aspect is C11)",
  "C03": "pure function of (model, state, ctrl); differential testing against MuJoCo, not simulation",
  "C04": "pure function of (scene, pose); contact listing order / atomics are decided by C11",
  "C05": "pure function of (model, state); row order / atomic allocation are decided by C11",
  "C06": "optimality certificate of one solve; warmstart is an input, no schedule/history/fault dimension",
  "C07": "pure function of (model, state); delayed sensors are C30",
  "C15": "enumeration of 2^NSTATE signatures x masks of one copy kernel; no schedule/fault/time dimension (get/set_state are exercised as the transplant mechanism of C12-C14 but C15 is not claimed)",
  "C18": "configuration differential of a pure function of the pose",
  "C19": "static table built at put_model plus a pure predicate",
  "C20": "per-pair pure geometry",
  "C21": "linear-algebra identity per (model, state, rhs); traversal order is C11",
  "C22": "pure function; dense/sparse equivalence is a configuration differential",
  "C24": "invariant of one solve output; forces are rewritten each solve, no history",
  "C26": "round-trip identity on one state",
  "C27": "pure function; finite differences",
  "C28": "pure graph function; the stated method is exhaustive small-graph enumeration (model checking, not simulation); atomics/order are C11",
  "C31": "pure conversion of one input",
  "C32": "configuration differential of a pure function (flags are swarm-varied knobs in every simulated run)",
  "C33": "pure function of the changed model",
  "C34": "pure function of (scene, ray)",
  "C35": "pure function of (scene, camera)",
  "C39": "pure decoding of one solve output",
  "C40": "pure function of (model, state)",
}
PENDING = ("designed in DESIGN.md; not claimed: its check module (sim/props, if present) has not been shown quiet on the unchanged tree from a fresh "
           "restore at more than one seed, so no verdict of it is offered (no claim is made until its command is sound)")
# modules that exist but are not claimed yet (their last recorded runs still showed unclassified alarms or harness errors)
UNVETTED = {"C08", "C17", "C23", "C25", "C29", "C30", "C36", "C38"}


def main():
  ids = [json.loads(l)["id"] for l in open(os.path.join(HERE, "properties.jsonl"))]
  checks, na = [], []
  for pid in ids:
    path = os.path.join(HERE, "sim", "props", pid.lower() + ".py")
    if pid in NA:
      na.append({"property_id": pid, "reason": NA[pid]})
      continue
    if not os.path.exists(path) or pid in UNVETTED or os.environ.get("VERIF_SKIP_" + pid):
      na.append({"property_id": pid, "reason": PENDING})
      continue
    src = open(path).read()

    def const(name, default=""):
      # read simple module-level string constants without importing warp
      import ast

      for node in ast.parse(src).body:
        if isinstance(node, ast.Assign) and getattr(node.targets[0], "id", None) == name:
          try:
            return ast.literal_eval(node.value)
          except Exception:
            return default
      return default

    checks.append({
      "property_id": pid,
      "quick_cmd": f"/venv/bin/python check.py {pid} quick",
      "thorough_cmd": f"/venv/bin/python check.py {pid} thorough",
      "evidence_file": f"/verif/evidence/{pid}.json",
      "replay_cmd_template": f"/venv/bin/python check.py {pid} --replay {{path}}",
      "engine": "dst",
      "level_claimed": {"category": const("LEVEL", "exploration"), "text": const("LEVEL_TEXT", ""), "design_ref": "DESIGN.md section 7, " + pid},
      "level_note": const("LEVEL_NOTE", "sampling, not enumeration; CPU backend; serial orders of whole tasks only; MuJoCo 3.13 / Warp 1.17 trusted"),
      "technique": const("TECHNIQUE", "deterministic simulation with fault injection: seeded search over scenarios"),
    })  # fmt: skip
  man = {
    "version": 1,
    "setup_cmd": "/venv/bin/python setup_verif.py",
    "hooks": {
      "guard": "MJWARP_VERIF_SIM",
      "enable": "no hook lives in /repo: the seams (thread scheduler, allocator contents, launch log) are monkey patches of the `warp` module installed by /verif/sim/seams.py inside /verif worker processes only (env MJWARP_VERIF_SIM=1 is set for them); /repo is imported as it is on disk (editable install), so checks always run the current working tree",
      "baseline_off_cmd": "cd /repo && /venv/bin/python -m pytest -ra -q -p no:cacheprovider --timeout=900 --continue-on-collection-errors",
      "source_commits": [],
      "add_only": True,
    },
    "engines": [{
      "name": "dst",
      "path": "/verif/sim",
      "serves_properties": [c["property_id"] for c in checks],
      "kind_free_text": "deterministic simulator for mujoco_warp on Warp's CPU backend: owns the per-launch task order (S1), wp.empty contents (S2), capacities, budgets, process history and the simulated clock; seeded scenario search in fresh interpreters, confirmation, delta-debugging minimisation, JSON replay files",
    }],
    "checks": checks,
    "not_applicable": na,
    "notes": "See DESIGN.md. Fix commits in /repo are listed in known_findings.json (status fixed); open findings are matched by violation class.",
  }  # fmt: skip
  json.dump(man, open(os.path.join(HERE, "MANIFEST.json"), "w"), indent=1)
  print("claimed:", [c["property_id"] for c in checks])
  print("pending:", [x["property_id"] for x in na if x["reason"] == PENDING])


if __name__ == "__main__":
  main()
