#!/usr/bin/env python3
"""Print a Markdown table of the seeded changes (seeded/) and reverse patches of the fix commits (reverts/) with what detected them,
from the detection.json files written by tools/sweep_mutants.py."""

import json
import os

HERE = os.path.dirname(os.path.dirname(os.path.abspath(__file__)))


def rows(corpus):
  base = os.path.join(HERE, corpus)
  for name in sorted(os.listdir(base)):
    d = os.path.join(base, name)
    if not os.path.isdir(d):
      continue
    meta = json.load(open(os.path.join(d, "meta.json")))
    det = json.load(open(os.path.join(d, "detection.json"))) if os.path.exists(os.path.join(d, "detection.json")) else {}
    cells = []
    for pid, r in det.items():
      if r.get("exit") == 1 and r.get("violation_lines"):
        cls = ""
        if r.get("classes"):
          try:
            c = json.loads(r["classes"][0])
            cls = "/".join(str(c[k]) for k in list(c)[:3])
          except Exception:
            cls = r["classes"][0][:60]
        cells.append(f"**{pid}** detects (seed {r.get('seed')}, {r.get('wall_s')} s: {cls})")
      elif r.get("exit") == 0:
        cells.append(f"{pid} misses (seed {r.get('seed')})")
      else:
        cells.append(f"{pid} error ({r.get('error') or 'exit ' + str(r.get('exit'))})")
    what = meta.get("needs_to_manifest") or meta.get("fix_subject") or ""
    if what == "see notes.md":
      notes = os.path.join(d, "notes.md")
      what = open(notes).readline().strip("# \n") if os.path.exists(notes) else ""
    yield f"| `{name}` | {meta.get('breaks_property')} | {what[:170]} | {'; '.join(cells) or 'not run'} |"


def main():
  for corpus, title in (("seeded", "Seeded changes written by independent sub-agents"), ("reverts", "Reverse patches of the fix: commits (real defects of the upstream tree)")):
    print(f"\n**{title}**\n")
    print("| id | property | what it needs / what it is | result of the quick check(s) |")
    print("|----|----------|----------------------------|------------------------------|")
    for r in rows(corpus):
      print(r)


if __name__ == "__main__":
  main()
