#!/usr/bin/env python3
"""Validate /verif/MANIFEST.json and the evidence files of the claimed checks against the schemas in /root/.vp (run with python3-vt,
which has jsonschema).  Also checks that every property id of properties.jsonl is either claimed or listed as not applicable."""

import json
import os
import sys

import jsonschema

HERE = os.path.dirname(os.path.dirname(os.path.abspath(__file__)))
VP = "/root/.vp"


def main():
  man = json.load(open(os.path.join(HERE, "MANIFEST.json")))
  jsonschema.validate(man, json.load(open(os.path.join(VP, "MANIFEST.schema.json"))))
  ids = [json.loads(l)["id"] for l in open(os.path.join(HERE, "properties.jsonl"))]
  claimed = [c["property_id"] for c in man["checks"]]
  na = [x["property_id"] for x in man.get("not_applicable", [])]
  bad = 0
  for i in ids:
    if (i in claimed) == (i in na):
      print("property", i, "must be exactly one of claimed / not_applicable")
      bad += 1
  ev_schema = json.load(open(os.path.join(VP, "EVIDENCE.schema.json")))
  for c in man["checks"]:
    p = c["evidence_file"]
    if not os.path.exists(p):
      print("missing evidence", p)
      bad += 1
      continue
    ev = json.load(open(p))
    try:
      jsonschema.validate(ev, ev_schema)
    except jsonschema.ValidationError as e:
      print("invalid evidence", p, str(e)[:300])
      bad += 1
      continue
    cov = ev["coverage"]
    print(f"{c['property_id']}: level={ev['level']} tier={ev['tier']} seed={ev['seed']} evaluations={cov.get('evaluations')} distinct={cov.get('distinct_nontrivial')} "
          f"violations={ev.get('violations')} wall={ev.get('wall_s')}s")
    if ev["level"] != c["level_claimed"]["category"]:
      print("  level mismatch with MANIFEST:", c["level_claimed"]["category"])
      bad += 1
  print("claimed", len(claimed), "not_applicable", len(na), "problems", bad)
  sys.exit(1 if bad else 0)


if __name__ == "__main__":
  main()
