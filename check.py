#!/usr/bin/env python
"""Entry point: check.py <property id> <quick|thorough> [--replay file] [--seed N]"""
import argparse
import os
import sys

HERE = os.path.dirname(os.path.abspath(__file__))
sys.path.insert(0, HERE)

if os.environ.get("PYTHONHASHSEED") != "0":  # S8: fixed hash seed for the parent as well
  os.environ["PYTHONHASHSEED"] = "0"
  os.execv(sys.executable, [sys.executable] + sys.argv)


def main():
  ap = argparse.ArgumentParser()
  ap.add_argument("property")
  ap.add_argument("tier", nargs="?", default=os.environ.get("VERIF_TIER", "quick"))
  ap.add_argument("--replay")
  ap.add_argument("--seed", type=int)
  ap.add_argument("--workers", type=int)
  ap.add_argument("--budget", type=float)
  a = ap.parse_args()
  from sim import runner

  rc = runner.check(a.property.upper(), a.tier, seed=a.seed, replay=a.replay, workers=a.workers, budget_s=a.budget)
  sys.exit(rc)


if __name__ == "__main__":
  main()
